"""C09 — generated Rust builds for wasm32 and componentizes as exactly the requested world.

Per (world, option variant): working-tree CLI `rust --stubs` (unmodified wasm
import declarations) -> one `rustc +nightly --target wasm32-verif.json
--crate-type=cdylib` call against the working-tree `wit-bindgen` guest crate
(built once per run with -Zbuild-std=core,alloc, no std) -> ComponentEncoder
(validating) -> decode -> compare worlds (exports equal, imports subset: stubs
never call imports).  Additionally the bindings are type-checked natively with
editions 2021 and 2024 as crates/test/src/rust.rs does."""
import concurrent.futures
import glob
import json
import os
import re
import shutil

import compz
import vcommon

META = {
    "engine": "componentize",
    "level": "exploration",
    "technique": "compile generated Rust (--stubs) to a real wasm32 core module with rustc nightly + build-std against the working-tree "
                 "wit-bindgen crate, then wit-component ComponentEncoder/decode as oracle; native edition 2021/2024 type-check; "
                 "adversarial random worlds + tests/codegen corpus x option variants",
    "text": "Every observed (world, option set) pair compiled (rustc exit 0, warnings allowed) to a wasm32 cdylib, was accepted by the "
            "validating component encoder, and the decoded world's exports equalled the requested ones and its imports were a subset "
            "with identical types. Exploration: held on the worlds generated for this seed.",
    "note": "Trusted: rustc nightly, custom target (wasm32-unknown-unknown spec with os=wasi, no std), stub allocator/panic handler, "
            "wit-component 0.257. HashMap map type needs std and is only type-checked natively. Exclusions mirror crates/test/src/rust.rs.",
}
FLOORS = {"quick": (24, 20), "thorough": (250, 200)}

VARIANTS = [
    ("default", []),
    ("borrowed", ["--ownership=borrowing"]),
    ("borrowed-duplicate", ["--ownership=borrowing-duplicate-if-necessary"]),
    ("async", ["--async=all"]),
    ("no-std", ["--std-feature"]),
    ("merge-equal", ["--merge-structurally-equal-types"]),
    ("hashmap", ["--map-type=std::collections::HashMap"]),
    ("raw-strings", ["--raw-strings"]),
]
NATIVE_ONLY = {"hashmap"}
PROFILES = [
    dict(names="adversarial"),
    dict(names="adversarial", **{"async": 1}),
    dict(names="adversarial", fixed_lists=1, ifaces=4),
    dict(names="adversarial", **{"async": 1}, types=8, funcs=6),
]
SUPPORT = os.path.join(vcommon.VERIF, "support", "rust-wasm")
FEATURES_WASM = ["realloc", "async", "bitflags", "async-spawn", "futures-stream", "inter-task-wakeup"]
FEATURES_HOST = FEATURES_WASM + ["std"]


def _write_if_different(path, text):
    try:
        with open(path) as f:
            if f.read() == text:
                return
    except OSError:
        pass
    with open(path, "w") as f:
        f.write(text)


def _cargo_artifacts(stdout):
    arts = {}
    for line in stdout.splitlines():
        if not line.startswith("{"):
            continue
        try:
            m = json.loads(line)
        except ValueError:
            continue
        if m.get("reason") == "compiler-artifact":
            arts[m["target"]["name"]] = [f for f in m.get("filenames", []) if f.endswith(".rlib")]
    return arts


def prepare_base():
    """Build (incrementally) the working-tree wit-bindgen crate for the custom
    wasm32 target and for the host; returns the context for per-world rustc calls."""
    root = os.path.join(vcommon.TARGET, "c09")
    os.makedirs(root, exist_ok=True)
    tjson = os.path.join(root, "wasm32-verif.json")
    if not os.path.exists(tjson):
        vcommon.sh(["python3", os.path.join(SUPPORT, "mk-target.py"), tjson], timeout=120, check=True)
    with open(os.path.join(SUPPORT, "base-Cargo.toml.in")) as f:
        tmpl = f.read()
    ctx = {"target_json": tjson, "wasip3_lib": os.path.join(vcommon.REPO, "crates", "guest-rust", "src", "rt", "libwit_bindgen_cabi_wasip3.a")}
    for kind, feats in (("wasm", FEATURES_WASM), ("host", FEATURES_HOST)):
        proj = os.path.join(root, "base-" + kind)
        os.makedirs(proj, exist_ok=True)
        _write_if_different(os.path.join(proj, "Cargo.toml"),
                            tmpl.replace("@REPO@", vcommon.REPO).replace("@FEATURES@", ", ".join('"%s"' % x for x in feats)))
        _write_if_different(os.path.join(proj, "lib.rs"), "#![no_std]\n")
        if not os.path.exists(os.path.join(proj, "Cargo.lock")):
            shutil.copy(os.path.join(SUPPORT, "base-Cargo.lock"), os.path.join(proj, "Cargo.lock"))
        env = dict(os.environ)
        env.update({"CARGO_NET_OFFLINE": "true", "CARGO_TARGET_DIR": os.path.join(root, "target-" + kind), "CARGO_TERM_COLOR": "never"})
        for k in ("RUSTFLAGS", "RUSTC_WRAPPER", "CARGO_ENCODED_RUSTFLAGS"):
            env.pop(k, None)  # the real, unhooked runtime
        cmd = ["cargo", "+nightly", "build", "--offline", "--message-format=json"]
        if kind == "wasm":
            cmd += ["-Zbuild-std=core,alloc", "-Zjson-target-spec", "--target", tjson]
        rc, out, err = vcommon.sh(cmd, cwd=proj, env=env, timeout=3600)
        if rc != 0:
            # the guest crate itself failing to build is not a verdict about generated code
            raise vcommon.HarnessFailure("building wit-bindgen (%s) failed:\n%s" % (kind, err[-4000:]))
        arts = _cargo_artifacts(out)
        if not arts.get("wit_bindgen"):
            raise vcommon.HarnessFailure("cargo did not report a wit_bindgen artifact (%s)" % kind)
        ctx[kind] = {"wit_bindgen": arts["wit_bindgen"][0], "deps": os.path.dirname(arts["wit_bindgen"][0])}
        if kind == "wasm":
            sysroot = os.path.join(root, "sysroot")
            libdir = os.path.join(sysroot, "lib", "rustlib", "wasm32-verif", "lib")
            shutil.rmtree(sysroot, ignore_errors=True)
            os.makedirs(libdir)
            for name in ("core", "alloc", "compiler_builtins", "rustc_std_workspace_core"):
                for f in arts.get(name, []):
                    shutil.copy(f, libdir)
            if not glob.glob(os.path.join(libdir, "libcore-*.rlib")):
                raise vcommon.HarnessFailure("no libcore rlib among the build-std artifacts")
            ctx["sysroot"] = sysroot
    rc, out, err = vcommon.sh(["rustc", "+nightly", "--print", "sysroot"], timeout=60)
    lld = glob.glob(os.path.join(out.strip(), "lib", "rustlib", "*", "bin", "rust-lld"))
    ctx["linker"] = lld[0] if lld else (compz.tool("wasm-ld", "wasm-ld-14") or "rust-lld")
    return ctx


_SECTION_RE = re.compile(
    r"link_section\s*=\s*\"(component-type:[^\"]*)\"\)?\]\s*(?:#\[[^\]]*\]\s*)*pub static \w+\s*:\s*\[u8;\s*(\d+)\]\s*=\s*\*b\"", re.S)


def eval_byte_string(text, start):
    """Evaluate a Rust byte-string literal body starting at text[start] (just
    after `b"`) with rustc's rules: escapes \\0 \\n \\r \\t \\\\ \\' \\" \\xNN, and a
    backslash-newline continuation that skips the newline and ALL following
    whitespace.  Returns (bytes, end_index) or (None, why)."""
    out = bytearray()
    i = start
    n = len(text)
    while i < n:
        c = text[i]
        if c == '"':
            return bytes(out), i
        if c != "\\":
            if ord(c) > 0x7f:
                return None, "non-ASCII character in byte string"
            if c == "\r" and i + 1 < n and text[i + 1] == "\n":
                i += 1
                c = "\n"
            out.append(ord(c))
            i += 1
            continue
        if i + 1 >= n:
            return None, "dangling backslash"
        e = text[i + 1]
        if e == "\n" or (e == "\r" and i + 2 < n and text[i + 2] == "\n"):
            i += 2 if e == "\n" else 3
            while i < n and text[i] in " \t\n\r":
                i += 1
            continue
        if e == "x":
            try:
                out.append(int(text[i + 2:i + 4], 16))
            except ValueError:
                return None, "bad \\x escape"
            i += 4
            continue
        simple = {"0": 0, "n": 10, "r": 13, "t": 9, "\\": 92, "'": 39, '"': 34}
        if e not in simple:
            return None, "unknown escape \\%s" % e
        out.append(simple[e])
        i += 2
    return None, "unterminated byte string"


def check_custom_section(job, world, bindings, d):
    """The component-type custom section every generated binding embeds: the
    literal must have exactly the declared length and decode to the requested
    world.  Returns None when fine, else a result dict."""
    with open(bindings) as f:
        text = f.read()
    ms = list(_SECTION_RE.finditer(text))
    if not ms:
        return {"status": "inconclusive", "why": "no component-type custom section found in the bindings (extractor limitation)"}
    for m in ms:
        declared = int(m.group(2))
        data, end = eval_byte_string(text, m.end())
        if data is None:
            return {"status": "inconclusive", "why": "custom-section literal could not be evaluated: %s" % end}
        if len(data) != declared:
            return {"status": "violation", "stage": "custom-section", "sig": "rust:custom-section:literal-length-mismatch",
                    "what": "the component-type literal evaluates to %d bytes but is declared `[u8; %d]` (section %s)" % (len(data), declared, m.group(1)[:80]),
                    "detail": "declared=%d evaluated=%d" % (declared, len(data))}
        path = os.path.join(d, "component-type.bin")
        with open(path, "wb") as f:
            f.write(data)
        r = compz.cz(["decode-check", "--bytes", path, "--wit", job["wit"], "--world", world])
        if r.get("ok"):
            continue
        if r.get("stage") == "harness":
            return {"status": "inconclusive", "why": "componentize decode-check: %s" % compz.normalise(r.get("error", ""))}
        if r.get("stage") == "undecodable":
            return {"status": "violation", "stage": "custom-section", "sig": "rust:custom-section:undecodable",
                    "what": "the embedded component-type section does not decode: " + r.get("error", "")[:400], "detail": r.get("error", "")}
        kinds = sorted({k for k, _ in r.get("diff", [])})
        return {"status": "violation", "stage": "custom-section", "sig": "rust:custom-section:world-mismatch:" + "+".join(kinds),
                "what": "the embedded component-type section describes a different world: " + "; ".join(x for _, x in r.get("diff", [])[:4]), "detail": ""}
    return None


def _first_error(text):
    for line in text.splitlines():
        m = re.match(r"error(\[E\d+\])?: (.*)$", line)
        if m and not m.group(2).startswith("aborting due to") and not m.group(2).startswith("could not compile"):
            return (m.group(1) or "").strip("[]"), m.group(2)
    return "", ""


BUCKETS = [
    (r"no method named `wit_map_len`", "WitMap-trait-not-in-scope"),
    (r"no method named `into_bytes` found for struct `Vec<u8>`", "raw-strings-into-bytes-on-vec"),
    (r"conflicting implementations of trait `(Future|Stream)Payload`", "duplicate-payload-impl"),
    (r"match bindings cannot shadow tuple structs", "type-named-like-prelude-variant"),
]
def _long_names_world():
    """Names of 31/32/33 characters (length prefix 0x1f/0x20/0x21) at many different offsets of the component-type section."""
    def nm(prefix, n):
        return (prefix + "x" * 40)[:n]
    lines = ["package a:lengths;", "interface i {"]
    for k in range(14):
        pad = "p" * (k + 1)
        lines.append("  record %s { %s: u8, %s: u32 }" % (nm("r%dq" % k, 32), nm("f%dq" % k, 32), nm("g%dq" % k, 31 + (k % 3))))
        lines.append("  %s: func(%s: %s, %s: u8) -> %s;" % (nm("fn%dq" % k, 32), nm("a%dq" % k, 32), nm("r%dq" % k, 32), pad, nm("r%dq" % k, 32)))
    lines.append("}")
    lines.append("world lengths { import i; export i; import %s: func(%s: u8); }" % (nm("wq", 32), nm("yq", 32)))
    return "\n".join(lines) + "\n"


DIRECTED = [
    ("names-of-32-chars", "lengths", _long_names_world(), ["default"]),
    ("world-level-map-import", "w", "package a:b;\nworld w { import f: func(m: map<u32, string>) -> u32; }\n", ["default"]),
    ("raw-strings-two-byte-futures", "w", "package a:b;\ninterface i { f: func(a: future<string>, b: future<list<u8>>); }\nworld w { import i; }\n", ["raw-strings"]),
    ("keyword-package-names", "w", "package true:for;\ninterface i { f: func(); }\nworld w { import i; export i; }\n", ["default"]),
    ("type-named-none", "w", "package a:b;\ninterface i { flags none { a, b } f: func(x: option<u8>) -> none; }\nworld w { import i; export i; }\n", ["default"]),
    ("case-named-self", "w", "package a:b;\ninterface i { variant v { self(u8), other } f: func(x: v) -> v; }\nworld w { import i; export i; }\n", ["default"]),
    # sharp gate (compiles on the pinned tree): types named exactly `guest` (record / variant / enum, not flags) in every
    # position - import and export, parameter and result, nested in list/option/result - under the ownership and merge options
    ("reserved-type-names", "reserved", """package a:reserved;
interface rec-iface {
  record guest { a: u8, b: string }
  f: func(x: guest) -> guest;
  g: func(x: list<guest>, y: option<guest>) -> result<list<guest>, guest>;
}
interface var-iface {
  variant guest { a(u8), b(string), c }
  f: func(x: guest) -> guest;
  g: func(x: list<guest>) -> option<guest>;
}
interface enum-iface {
  enum guest { a, b }
  f: func(x: guest) -> guest;
  g: func(x: option<guest>) -> list<guest>;
}
world reserved {
  import rec-iface; import var-iface; import enum-iface;
  export rec-iface; export var-iface; export enum-iface;
  import wf: func(x: u8) -> u8;
}
""", ["default", "borrowed", "merge-equal"]),
    # same, payload-free of strings/lists inside the `guest` types: `borrowing-duplicate-if-necessary` has a declared bug
    # (crates/test/src/rust.rs) with borrowed data in duplicated types, which would mask this gate
    ("reserved-type-names-pod", "reserved", """package a:reserved;
interface rec-iface {
  record guest { a: u8, b: u64 }
  f: func(x: guest) -> guest;
  g: func(x: list<guest>, y: option<guest>) -> result<list<guest>, guest>;
}
interface var-iface {
  variant guest { a(u8), b(f64), c }
  f: func(x: guest) -> guest;
  g: func(x: list<guest>) -> option<guest>;
}
interface enum-iface {
  enum guest { a, b }
  f: func(x: guest) -> guest;
  g: func(x: option<guest>) -> list<guest>;
}
world reserved {
  import rec-iface; import var-iface; import enum-iface;
  export rec-iface; export var-iface; export enum-iface;
}
""", ["default", "borrowed", "borrowed-duplicate", "merge-equal"]),
    ("type-named-guest", "w", "package a:b;\ninterface i { flags guest { a, b } f: func(x: guest) -> guest; }\nworld w { export i; }\n", ["default"]),
]


def run_job(job, workroot, ctx):
    d = os.path.join(workroot, "out-" + vcommon.stable_hash(job["id"]))
    info = compz.world_info(job["wit"])
    world = job["world"] or info.get("world")
    if not world or "sync_funcs" not in info:
        return {"status": "inconclusive", "why": "cannot select a world: %s" % info.get("error", "")[:100]}
    # see C12: `--async=all` over sync-typed functions cannot be componentized by anyone
    build_only = "--async=all" in job["args"] and info["sync_funcs"] > 0
    st, detail = compz.run_generator("rust", job["wit"], world, d, ["--stubs"] + job["args"], wasm_imports=True)
    if st != "ok":
        return {"status": "inconclusive", "why": "rust generator %s (C16's business)" % st, "detail": detail[-300:]}
    rs = [f for f in os.listdir(d) if f.endswith(".rs")]
    if len(rs) != 1:
        return {"status": "violation", "stage": "files", "sig": "rust:files:unexpected-output-set", "what": "expected one .rs, got %s" % sorted(os.listdir(d))}
    bindings = os.path.join(d, rs[0])
    with open(bindings) as f:
        if "verif_import|" in f.read():
            return {"status": "inconclusive", "why": "hooked (native) import declarations in the output; VERIF_WASM_IMPORTS not honoured"}
    env = dict(os.environ)
    env["BINDINGS"] = bindings
    for k in ("RUSTFLAGS", "RUSTC_WRAPPER"):
        env.pop(k, None)
    bad = check_custom_section(job, world, bindings, d)
    if bad:
        return bad
    res = {"status": "ok", "world": world, "native": 0, "wasm": False, "imports": 0, "exports": 0, "build_only": False, "section": True}
    if ctx.get("tier") == "quick":
        ctx = dict(ctx)
        ctx["editions"] = ("2024",) if int(vcommon.stable_hash(job["id"]), 16) % 2 else ("2021",)

    def fail(stage, err, what):
        code, msg = _first_error(err)
        if not msg:
            return {"status": "inconclusive", "why": "rustc (%s) failed without a diagnostic" % stage, "detail": err[-300:]}
        if "internal compiler error" in err or msg.startswith("the compiler unexpectedly panicked"):
            return {"status": "inconclusive", "why": "rustc ICE (%s)" % stage, "detail": err[-300:]}
        wit_text = compz.read_wit(job["wit"])
        root = compz.bucket(msg, BUCKETS)
        if not root and re.search(r"the name `Guest\w*` is defined multiple times", msg) and re.search(r"\bflags\s+%?guest\b", wit_text):
            # known class, limited to a *flags* type called `guest` (other kinds are renamed to `Guest_`)
            root = "type-named-guest-collides-with-trait"
        if not root and "expected identifier, found" in msg:
            root = compz.keyword_root_cause(err, wit_text, compz.RUST_KEYWORDS)
        if not root and job["source"] in ("random", "directed") and compz.confirmed_temporary_collision(err, wit_text):
            root = "generator-temporary-collision"
        sig = compz.signature(job, "rust:rustc:", root, named=True) if root else \
            compz.signature(job, "rust:rustc:", "%s:%s" % (code or "error", compz.normalise_rust(msg)))
        return {"status": "violation" if sig else "unclassified", "stage": "rustc", "sig": sig,
                "what": "%s: error%s: %s" % (what, "[%s]" % code if code else "", msg), "detail": err[:2500]}

    # native type-check, as crates/test/src/rust.rs `verify` (without -Dwarnings)
    host = ctx["host"]
    for edition in ctx.get("editions", ("2021", "2024")):
        cmd = ["rustc", "+nightly", "--edition=" + edition, "--crate-type=rlib", "--crate-name", "verif_bindings", "--emit=metadata",
               "-L", "dependency=" + host["deps"], "--extern", "wit_bindgen=" + host["wit_bindgen"], "-o", os.path.join(d, "native-%s.rmeta" % edition), bindings]
        rc, out, err = vcommon.sh(cmd, env=env, timeout=600)
        if rc is None:
            return {"status": "inconclusive", "why": "rustc watchdog timeout (native)"}
        if rc != 0:
            return fail("native-" + edition, err, "native type-check (edition %s) fails" % edition)
        res["native"] += 1
    if "--std-feature" in job["args"]:
        cmd = ["rustc", "+nightly", "--edition=2021", "--crate-type=rlib", "--crate-name", "verif_nostd", "--emit=metadata",
               "-L", "dependency=" + host["deps"], "--extern", "wit_bindgen=" + host["wit_bindgen"], "-o", os.path.join(d, "nostd.rmeta"),
               os.path.join(SUPPORT, "nostd-root.rs")]
        rc, out, err = vcommon.sh(cmd, env=env, timeout=600)
        if rc is None:
            return {"status": "inconclusive", "why": "rustc watchdog timeout (no_std)"}
        if rc != 0:
            return fail("no_std", err, "no_std root (mod core {}) type-check fails")
        res["native"] += 1
    if job["variant"] in NATIVE_ONLY:
        return res
    # real wasm32 build
    module = os.path.join(d, "module.wasm")
    wasm = ctx["wasm"]
    cmd = ["rustc", "+nightly", "--edition=2021", "--target", ctx["target_json"], "-Zunstable-options", "--sysroot", ctx["sysroot"],
           "-C", "linker=" + ctx["linker"], "-C", "debuginfo=0", "--crate-type=cdylib", "--crate-name", "verif_guest",
           "-L", "dependency=" + wasm["deps"], "--extern", "wit_bindgen=" + wasm["wit_bindgen"], "-o", module, os.path.join(SUPPORT, "guest-root.rs")]
    if os.path.exists(ctx["wasip3_lib"]):
        # build.rs links this shim only for target_env="p3"; any other wasm32
        # target needs `wasip3_task_set` from somewhere for async bindings
        cmd += ["-C", "link-arg=" + ctx["wasip3_lib"]]
    rc, out, err = vcommon.sh(cmd, env=env, timeout=900)
    if rc is None:
        return {"status": "inconclusive", "why": "rustc watchdog timeout (wasm32)"}
    if rc != 0:
        if "linking with" in err and "failed" in err:
            m = re.search(r"(rust-lld|wasm-ld): error: (.*)", err)
            msg = m.group(2) if m else "link failure"
            return {"status": "violation", "stage": "rustc", "sig": compz.signature(job, "rust:rustc:link:", compz.normalise(re.sub(r"\([^)]*\.o\)", "", msg))), "what": "wasm32 link fails: " + msg, "detail": err[:2500]}
        return fail("wasm32", err, "wasm32 build fails")
    res["wasm"] = True
    if build_only:
        res["build_only"] = True
        return res
    r = compz.cz(["encode-check", "--module", module, "--wit", job["wit"], "--world", world, "--imports", "subset"])
    res["imports"] = r.get("got_import_funcs", 0)
    res["exports"] = r.get("got_export_funcs", 0)
    if r.get("ok"):
        return res
    stage = r.get("stage")
    if stage in ("harness", "encoder-panic", "decode"):
        return {"status": "inconclusive", "why": "componentize %s: %s" % (stage, compz.normalise(r.get("error", "")))}
    if stage == "encode":
        return {"status": "violation", "stage": "encode", "sig": compz.signature(job, "rust:encode:", compz.normalise(re.sub(r"\(at offset 0x[0-9a-f]+\)", "", r.get("error", "").split(": ")[-1]))),
                "what": "component encoder rejects the module: " + r.get("error", "")[:600]}
    kinds = sorted({k for k, _ in r.get("diff", [])})
    return {"status": "violation", "stage": "world-mismatch", "sig": compz.signature(job, "rust:world-mismatch:", "+".join(kinds)),
            "what": "decoded world differs from the requested one: " + "; ".join(x for _, x in r.get("diff", [])[:4])}


def run(tier, seed, replay):
    rep = vcommon.Report("C09", level="exploration",
                         rule="one evaluation = one (world, Rust option variant) pair taken through native type-check (editions 2021+2024), "
                              "wasm32 rustc, ComponentEncoder and decode; distinct = distinct (WIT text, variant) pairs with at least one export or a successful build")
    work = vcommon.scratch_dir("c09")
    try:
        compz.componentize_bin()
        import cli
        cli.build_cli()
        ctx = prepare_base()
        # quick: one native edition per job (alternating), thorough: both
        if replay:
            jobs, stats = compz.replay_job(replay, work, VARIANTS), {}
        else:
            ctx["tier"] = tier
            if tier == "quick":
                jobs, stats = compz.plan("rust", tier, seed, work, VARIANTS, 20, PROFILES, quick_corpus=(1, 4), directed=DIRECTED)
                # the `temporaries` world fails the same way under every option set: one variant is enough
                jobs = [j for j in jobs if not (j["name"] == "temporaries" and j["variant"] != "default")]
            else:
                jobs, stats = compz.plan("rust", tier, seed, work, VARIANTS, 160, PROFILES, directed=DIRECTED)
        counts = {"ok": 0, "violation": 0, "inconclusive": 0, "unclassified": 0}
        per_variant = {}
        wasm_built = 0
        native_checks = 0
        with concurrent.futures.ThreadPoolExecutor(max_workers=vcommon.NPROC) as ex:
            futs = {ex.submit(compz.retry_lowercased, j, work, lambda jj: run_job(jj, work, ctx)): j for j in jobs}
            results = []
            for fut in concurrent.futures.as_completed(futs):
                try:
                    results += fut.result()
                except Exception as e:
                    results.append((futs[fut], {"status": "inconclusive", "why": "harness exception %s" % type(e).__name__, "detail": str(e)[:200]}))
            for j, r in results:
                counts[r["status"]] += 1
                if r["status"] == "ok":
                    per_variant[j["variant"]] = per_variant.get(j["variant"], 0) + 1
                    wasm_built += 1 if r["wasm"] else 0
                    native_checks += r["native"]
                    rep.add_eval(vcommon.stable_hash([compz.read_wit(j["wit"]), j["variant"]]))
                    if len(rep.samples) < 6:
                        rep.samples.append({"job": j["id"], "args": ["--stubs"] + j["args"], "world": r["world"], "wasm32_built": r["wasm"],
                                            "component_import_funcs": r["imports"], "component_export_funcs": r["exports"]})
                elif r["status"] == "unclassified":
                    rep.add_eval(vcommon.stable_hash([compz.read_wit(j["wit"]), j["variant"]]))
                    compz.unclassified(rep, j, r["stage"], r["what"], r.get("detail", ""))
                elif r["status"] == "violation":
                    tally = rep.extra.setdefault("violation_tally", {})
                    k = "%s | %s" % (r["sig"], compz.normalise(r["what"].split(": ", 1)[-1]))
                    tally[k] = tally.get(k, 0) + 1
                    rep.add_eval(vcommon.stable_hash([compz.read_wit(j["wit"]), j["variant"]]))
                    rep.violation(r["sig"], "%s [job %s args --stubs %s]" % (r["what"], j["id"], " ".join(j["args"])),
                                  compz.job_replay(j, {"stage": r.get("stage"), "detail": r.get("detail", "")}))
                else:
                    rep.inconc(r["why"])
        rep.extra.update({"jobs": len(jobs), "outcomes": counts, "ok_per_variant": per_variant, "plan": stats,
                          "wasm32_modules_componentized": wasm_built, "native_typechecks": native_checks})
        rep.assumptions += ["`--async=all` over a world with sync-typed functions is built but not componentized (wasmparser rejects the `async` "
                            "canonical option on a non-async function type)",
                            "libwit_bindgen_cabi_wasip3.a from the working tree is linked explicitly (build.rs links it only for target_env=p3)",
                            "wit-bindgen guest crate built without its `std` feature for the wasm32 build (no std on the custom target)",
                            "generator errors/panics are C16's business and counted as inconclusive here"]
        if replay:
            compz.replay_floor(rep, FLOORS, tier)
    finally:
        vcommon.rm_scratch(work)
    return rep


# ---- development helpers (ad-hoc debugging drivers only)
def dbg_ctx(work):
    return prepare_base()


def dbg_plan(tier, seed, work):
    if tier == "quick":
        return compz.plan("rust", tier, seed, work, VARIANTS, 20, PROFILES, quick_corpus=(1, 4), directed=DIRECTED)
    return compz.plan("rust", tier, seed, work, VARIANTS, 160, PROFILES, directed=DIRECTED)


def dbg_run(job, work, ctx):
    return compz.retry_lowercased(job, work, lambda jj: run_job(jj, work, ctx))
