"""C32 — `generate!` tracks every WIT file it reads.

Seeded random package layouts x invocation forms; each case is a tiny native lib
crate in one scratch cargo workspace that depends on the working-tree
`wit-bindgen` crate.  The workspace is built offline with a RUSTC_WRAPPER that
puts the rustc process of every case crate (and only those) under
`strace -f -e trace=open,openat`, so the set of layout files the compiler process
actually opened while expanding the macro is *observed*.  Oracle: each of them
appears in rustc's dep-info (`deps/<crate>-<hash>.d`).  Behavioural monitor:
editing one read file makes cargo re-run rustc for that crate, untouched crates
stay fresh."""
import glob
import json
import os
import re
import shutil
import time

import c32_layouts as L
import vcommon

META = {
    "engine": "c32 (lib/c32_layouts.py + lib/checks/C32.py)",
    "level": "exploration",
    "technique": "syscall tracing (strace) of the real rustc+proc-macro over seeded random WIT layouts x invocation forms, "
                 "compared with rustc dep-info; touch-and-rebuild monitor through cargo",
    "text": "For every observed expansion, each layout file the rustc process opened for reading (from the syscall trace, not from a "
            "model of the parser) is listed in the crate's dep-info, and editing a read file made cargo recompile the crate while "
            "untouched crates stayed fresh. Layout space is infinite; this is a sample, hence exploration.",
    "note": "Trusted: strace, cargo's dep-info handling, the classification of created files into roles. Only files created by the "
            "layout generator are considered (the crate's own sources and registry files are not WIT inputs).",
}
FLOORS = {"quick": (9, 6), "thorough": (80, 20)}

WRAPPER = r"""#!/bin/sh
# RUSTC_WRAPPER for C32: $1 = rustc, rest = its arguments.  Only the case crates are traced.
prev=""; name=""
for a in "$@"; do if [ "$prev" = "--crate-name" ]; then name="$a"; fi; prev="$a"; done
case "$name" in
  ${C32_PREFIX}*) exec strace -f -qq -s 8192 -e trace=open,openat -o "$C32_TRACE_DIR/$name.trace" "$@";;
  *) exec "$@";;
esac
"""


def _target():
    return os.path.join(vcommon.TARGET, "c32")


def _env(ws, prefix):
    env = vcommon.base_env({"CARGO_TARGET_DIR": _target()}, hooks=False)
    env["RUSTC_WRAPPER"] = os.path.join(ws, "wrap.sh")
    env["C32_TRACE_DIR"] = os.path.join(ws, "traces")
    env["C32_PREFIX"] = prefix
    env.pop("WIT_BINDGEN_DEBUG", None)
    env["CARGO_INCREMENTAL"] = "0"
    return env


_OPEN_RE = re.compile(r'^(\d+)\s+(open|openat)\((.*)$')
_RESUMED_RE = re.compile(r'^(\d+)\s+<\.\.\. (open|openat) resumed>(.*)$')


def _unescape(s):
    # strace prints C-style escapes
    try:
        return bytes(s, "latin-1").decode("unicode_escape").encode("latin-1").decode("utf8", "replace")
    except Exception:
        return s


def parse_trace(path, cwds):
    """-> set of absolute real paths opened successfully for reading (not directories)."""
    opened = set()
    pending = {}
    nlines = 0
    with open(path, errors="replace") as f:
        for line in f:
            nlines += 1
            line = line.rstrip("\n")
            m = _OPEN_RE.match(line)
            if m:
                pid, rest = m.group(1), m.group(3)
                if rest.endswith("<unfinished ...>"):
                    pending[pid] = rest[:-len("<unfinished ...>")]
                    continue
                full = rest
            else:
                m = _RESUMED_RE.match(line)
                if not m or m.group(1) not in pending:
                    continue
                full = pending.pop(m.group(1)) + m.group(3)
            mm = re.search(r'"((?:[^"\\]|\\.)*)"(\.\.\.)?,\s*([A-Z_|0-9a-zx]+)', full)
            res = re.search(r'\)\s*=\s*(-?\d+)', full)
            if not mm or not res or int(res.group(1)) < 0:
                continue
            flags = mm.group(3)
            if "O_DIRECTORY" in flags or "O_WRONLY" in flags or "O_RDWR" in flags or "O_PATH" in flags:
                continue
            p = _unescape(mm.group(1))
            cands = [p] if os.path.isabs(p) else [os.path.join(c, p) for c in cwds]
            for c in cands:
                if os.path.exists(c):
                    opened.add(os.path.realpath(c))
                    break
    return opened, nlines


def parse_depinfo(path, cwd):
    """rustc dep-info: make syntax with `\\ ` for spaces.  -> set of real paths."""
    deps = set()
    with open(path) as f:
        for line in f:
            line = line.rstrip("\n")
            if not line or line.startswith("#"):
                continue
            m = re.match(r'^((?:[^:\\]|\\.)+):(.*)$', line)
            if not m:
                continue
            rhs = m.group(2)
            for tok in re.findall(r'(?:[^\s\\]|\\.)+', rhs):
                p = re.sub(r'\\(.)', r'\1', tok)
                if not os.path.isabs(p):
                    p = os.path.join(cwd, p)
                deps.add(os.path.realpath(p))
    return deps


def _find_depinfo(crate):
    name = crate.replace("-", "_")
    c = sorted(glob.glob(os.path.join(_target(), "debug", "deps", name + "-*.d")), key=os.path.getmtime)
    return c[-1] if c else None


def _cleanup_target(prefix):
    t = os.path.join(_target(), "debug")
    name = prefix.replace("-", "_")
    for pat in ("deps/%s*" % name, "deps/lib%s*" % name, ".fingerprint/%s*" % prefix, "lib%s*" % name, "incremental/%s*" % name):
        for p in glob.glob(os.path.join(t, pat)):
            if os.path.isdir(p):
                shutil.rmtree(p, ignore_errors=True)
            else:
                try:
                    os.remove(p)
                except OSError:
                    pass


def _build(ws, prefix, timeout):
    tr = os.path.join(ws, "traces")
    shutil.rmtree(tr, ignore_errors=True)
    os.makedirs(tr)
    cmd = ["cargo", "build", "--offline", "-v", "--keep-going", "--workspace"]
    t0 = time.time()
    rc, out, err = vcommon.sh(cmd, cwd=ws, env=_env(ws, prefix), timeout=timeout)
    status = {}
    for m in re.finditer(r'^\s*(Fresh|Compiling|Dirty)\s+(\S+)\s+v', err, re.M):
        if m.group(2).startswith(prefix):
            if m.group(1) == "Fresh":
                status.setdefault(m.group(2), "fresh")
            else:
                status[m.group(2)] = "rebuilt"
    failed = set(re.findall(r'could not compile `([^`]+)`', err))
    return rc, err, status, failed, time.time() - t0


def _role_of(case_files, real):
    return case_files.get(real, "unknown")


def _sig_form_role(form, role, path=""):
    if role == "wasm-dep" and path.endswith((".wasm", ".wat")):
        # the cause is independent of the invocation form (any directory source with deps/*.wasm)
        return "generate-macro:untracked-wit:deps-dir:wasm-dep"
    return "generate-macro:untracked-wit:%s:%s" % (form, role)


def run(tier, seed, replay):
    rep = vcommon.Report("C32", level="exploration",
                         rule="evaluation = one macro expansion whose trace and dep-info were compared, plus one per touch-and-rebuild observation; "
                              "distinct = (invocation form, sorted roles of the files read, world option kind) combinations")
    rep.assumptions += [
        "files read = files created by the layout generator that the traced rustc process (incl. threads/children) opened read-only",
        "a wasm-encoded WIT package (deps/*.wasm, path: \"x.wasm\") counts as a WIT file the macro reads",
        "cargo decides freshness from rustc's dep-info; the rebuild monitor observes rustc being re-run (new strace file) and cargo -v status lines",
    ]
    wasm = os.path.join(vcommon.REPO, "crates", "guest-rust", "wasi-cli@0.2.0.wasm")
    if not os.path.exists(wasm):
        wasm = None
        rep.inconc("wasm-encoded dependency layouts skipped: crates/guest-rust/wasi-cli@0.2.0.wasm not found")
    n = 9 if tier == "quick" else 81
    rounds = 1 if tier == "quick" else 2
    prefix = "c32v%dx%d" % (os.getpid(), seed % 100000)
    ws = vcommon.scratch_dir("c32")
    rng = vcommon.Rng(seed * 7919 + 32)
    try:
        cases = []
        if replay:
            FLOORS[tier] = (1, 1)   # a replay is one case; the tier floors do not apply
            rp = replay.get("replay", replay)
            c = rp["case"]
            old = c["crate"]
            c = json.loads(json.dumps(c).replace(old, prefix + "n0"))
            cases = [c]
            if wasm:
                for fl in c["files"]:
                    if "copy" in fl:
                        fl["copy"] = wasm
        else:
            # every form appears in turn; the order is shuffled by the seed, wasm-dep is forced once early
            forms = list(L.FORMS)
            order = []
            while len(order) < n:
                fs = list(forms)
                for i in range(len(fs) - 1, 0, -1):
                    j = rng.below(i + 1)
                    fs[i], fs[j] = fs[j], fs[i]
                order += fs
            order = order[:n]
            if "inline" in order[:n] and n <= 8:
                pass
            forced = False
            for i, form in enumerate(order):
                force = (not forced) and form in ("path-str-dir", "default-dir", "inline+path", "inline-default-dir", "path-list")
                forced = forced or force
                cases.append(L.gen_case(rng.fork("case%d" % i), i, "%sn%d" % (prefix, i), form, wasm, force))
        os.makedirs(os.path.join(ws, "traces"))
        with open(os.path.join(ws, "Cargo.toml"), "w") as f:
            f.write("[workspace]\nresolver = \"2\"\nmembers = [%s]\n\n[profile.dev]\ndebug = 0\nincremental = false\n"
                    % ", ".join('"%s"' % c["crate"] for c in cases))
        lock = os.path.join(vcommon.REPO, "Cargo.lock")
        if os.path.exists(lock):
            shutil.copy(lock, os.path.join(ws, "Cargo.lock"))
        with open(os.path.join(ws, "wrap.sh"), "w") as f:
            f.write(WRAPPER)
        os.chmod(os.path.join(ws, "wrap.sh"), 0o755)
        for c in cases:
            L.materialize(ws, c, vcommon.REPO)

        rc, err, status, failed, wall = _build(ws, prefix, 3600 if tier == "thorough" else 900)
        rep.extra["first_build_wall_s"] = round(wall, 1)
        if rc is None:
            raise vcommon.HarnessFailure("cargo build of the scratch workspace hit the watchdog")
        if rc != 0 and not any(os.path.exists(os.path.join(ws, "traces", c["crate"].replace("-", "_") + ".trace")) for c in cases):
            raise vcommon.HarnessFailure("the scratch workspace does not build (wit-bindgen itself or resolution failed):\n" + err[-3000:])

        judged = []
        by_form = {}
        roles_seen = {}
        for c in cases:
            crate = c["crate"]
            tr = os.path.join(ws, "traces", crate.replace("-", "_") + ".trace")
            dep = _find_depinfo(crate)
            if crate in failed or not os.path.exists(tr) or dep is None:
                m = re.search(r'error[^\n]*\n(?:[^\n]*\n){0,12}?[^\n]*%s[^\n]*' % re.escape(crate), err)
                rep.inconc("case did not compile (form %s): %s" % (c["form"], (m.group(0) if m else "no diagnostics found")[-400:]))
                continue
            known = {}
            for fl in c["files"]:
                known[os.path.realpath(os.path.join(ws, fl["rel"]))] = fl["role"]
            opened, nlines = parse_trace(tr, [ws, os.path.join(ws, crate)])
            tracked = parse_depinfo(dep, ws)
            wsreal = os.path.realpath(ws) + os.sep
            srcdir = os.path.realpath(os.path.join(ws, crate, "src")) + os.sep
            read = set()
            for p in opened:
                if p in known:
                    read.add(p)
                elif p.startswith(wsreal) and not p.startswith(srcdir) and p.endswith((".wit", ".wasm", ".wat")):
                    read.add(p)
            libreal = os.path.realpath(os.path.join(ws, crate, "src", "lib.rs"))
            if libreal not in tracked or libreal not in opened:
                rep.inconc("case %s: trace/dep-info sanity failed (src/lib.rs missing from %s)" % (c["form"], "dep-info" if libreal not in tracked else "trace"))
                continue
            roles = sorted({_role_of(known, p) for p in read})
            distract = [p for p in read if known.get(p) == "distractor"]
            missing = sorted(p for p in read if p not in tracked)
            wk = "none" if not c["world_opt"] else ("qualified" if ":" in c["world_opt"] else "bare")
            rep.add_eval("%s|%s|%s" % (c["form"], ",".join(roles), wk))
            by_form[c["form"]] = by_form.get(c["form"], 0) + 1
            for p in read:
                r = _role_of(known, p)
                roles_seen[r] = roles_seen.get(r, 0) + 1
            rep.extra["files_read_total"] = rep.extra.get("files_read_total", 0) + len(read)
            rep.extra["files_tracked_total"] = rep.extra.get("files_tracked_total", 0) + len([p for p in read if p in tracked])
            rep.extra["trace_lines"] = rep.extra.get("trace_lines", 0) + nlines
            if c["expect_reads"] and not read:
                rep.inconc("case %s: the macro expanded but the trace shows no layout file being read" % c["form"])
            if len(rep.samples) < 6:
                rep.samples.append({"form": c["form"], "invocation": c["lib_rs"].strip()[:300],
                                    "read": [{"file": os.path.relpath(p, ws), "role": _role_of(known, p), "tracked": p in tracked} for p in sorted(read)]})
            judged.append({"case": c, "read": read, "tracked": tracked, "known": known, "missing": missing})
            seen_sig = set()
            for p in missing:
                role = _role_of(known, p)
                sig = _sig_form_role(c["form"], role, p)
                if sig in seen_sig:
                    continue
                seen_sig.add(sig)
                rep.violation(sig,
                              "generate! (form %s: `%s`) read %s [%s] but rustc's dep-info for the crate does not list it; "
                              "files read: %s" % (c["form"], c["lib_rs"].strip()[:200], os.path.relpath(p, ws), role,
                                                  [(os.path.relpath(q, ws), q in tracked) for q in sorted(read)]),
                              {"case": c, "untracked": [os.path.relpath(q, ws) for q in missing],
                               "dep_info": sorted(os.path.relpath(q, ws) for q in tracked if q.startswith(wsreal))})
        rep.extra["cases_by_form"] = by_form
        rep.extra["files_read_by_role"] = roles_seen

        # ---- behavioural monitor: touch one read file per crate, cargo must re-run rustc for exactly those crates
        for rnd in range(rounds):
            touched = {}
            control = set()
            for k, j in enumerate(judged):
                c = j["case"]
                cand = sorted(p for p in j["read"] if p in j["tracked"] and not p.endswith(".wasm"))
                if not cand or (k + rnd) % 4 == 3:
                    control.add(c["crate"])
                    continue
                p = cand[rng.below(len(cand))]
                with open(p, "a") as f:
                    f.write("// edited in round %d\n" % rnd)
                touched[c["crate"]] = p
            if not touched:
                break
            time.sleep(0.05)
            rc, err2, status, failed2, wall = _build(ws, prefix, 1800)
            rep.extra["rebuild_wall_s"] = round(rep.extra.get("rebuild_wall_s", 0) + wall, 1)
            if rc is None or (rc != 0 and not status):
                rep.inconc("rebuild round %d: cargo did not finish (rc=%s)" % (rnd, rc))
                break
            for j in judged:
                c = j["case"]
                crate = c["crate"]
                reran = os.path.exists(os.path.join(ws, "traces", crate.replace("-", "_") + ".trace"))
                st = status.get(crate)
                if crate in touched:
                    role = _role_of(j["known"], touched[crate])
                    if reran or st == "rebuilt":
                        rep.add_eval()
                        rep.extra["rebuilds_observed"] = rep.extra.get("rebuilds_observed", 0) + 1
                    elif st == "fresh":
                        rep.violation("generate-macro:no-rebuild:%s:%s" % (c["form"], role),
                                      "editing %s [%s], which the macro read and dep-info lists, did not make cargo recompile the crate "
                                      "(form %s)" % (os.path.relpath(touched[crate], ws), role, c["form"]),
                                      {"case": c, "edited": os.path.relpath(touched[crate], ws)})
                    else:
                        rep.inconc("rebuild round %d: no status for touched crate (form %s)" % (rnd, c["form"]))
                elif crate in control:
                    if reran or st == "rebuilt":
                        rep.inconc("rebuild monitor: untouched control crate was recompiled (form %s) — freshness signal unreliable" % c["form"])
                    else:
                        rep.extra["controls_stayed_fresh"] = rep.extra.get("controls_stayed_fresh", 0) + 1

        # ---- for files found untracked: does editing them go unnoticed? (recorded with the finding, not a separate verdict)
        unt = [(j, p) for j in judged for p in j["missing"]]
        if unt:
            for j, p in unt:
                if p.endswith((".wasm", ".wat")):
                    os.utime(p, None)  # binary package: only bump the mtime (what cargo looks at)
                else:
                    with open(p, "a") as f:
                        f.write("\n")
            time.sleep(0.05)
            rc, err3, status, failed3, wall = _build(ws, prefix, 1800)
            unnoticed = []
            for j, p in unt:
                crate = j["case"]["crate"]
                reran = os.path.exists(os.path.join(ws, "traces", crate.replace("-", "_") + ".trace"))
                if not reran and status.get(crate) == "fresh":
                    unnoticed.append(os.path.relpath(p, ws))
            rep.extra["untracked_edits_unnoticed_by_cargo"] = unnoticed
            for v in rep.violations:
                if v["signature"].startswith("generate-macro:untracked-wit"):
                    v["replay"]["edits_unnoticed_by_cargo"] = unnoticed
        rep.extra["cases_generated"] = len(cases)
        return rep
    finally:
        _cleanup_target(prefix)
        vcommon.rm_scratch(ws)
