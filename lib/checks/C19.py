"""C19 — streams transfer each value exactly once, in order."""
import os
import sys

import vcommon

sys.path.insert(0, os.path.join(vcommon.VERIF, "crates", "rt-host", "py"))
import rthost_check  # noqa: E402

META = {
    "engine": "rt-host",
    "level": "exploration",
    "technique": "real runtime linked (hook H2) against a mock component-model host; schedules = choice vectors (host decisions + guest actions) enumerated bounded-exhaustively and at random; oracle: per-operation count agreement, per-stream order/conservation over unique item ids, ownership ledger from instrumented lift/lower/dealloc_lists + drop counters, counting allocator; Miri shards; valgrind (thorough)",
    "text": "every observed execution delivered the values handed to a stream writer to the reader exactly once and in order, reported exactly the host's transfer counts, returned or dropped untransferred values once, and released every lowered element buffer exactly once (dealloc_lists after transfer xor lift on take-back); guest heap back to baseline. Exploration, not proof",
    "note": "v2 task ABI only (the runtime's own executor); Trusted base: mock host state machines, written from the canonical ABI spec",
}
FLOORS = {"quick": (20000, 5000), "thorough": (200000, 20000)}

RULE = "evaluation = one execution of a scenario (small guest program over streams/futures in 1-2 export tasks or block_on) under one choice vector; distinct = distinct event traces (calls, deliveries, copies, callback codes, guest-visible results) per scenario"


def run(tier, seed, replay):
    return rthost_check.run("C19", "c19", tier, seed, replay, RULE)
