"""C20 — futures deliver exactly one value and never strand a writer."""
import os
import sys

import vcommon

sys.path.insert(0, os.path.join(vcommon.VERIF, "crates", "rt-host", "py"))
import rthost_check  # noqa: E402

META = {
    "engine": "rt-host",
    "level": "exploration",
    "technique": "real runtime linked (hook H2) against a mock component-model host; schedules = choice vectors (host decisions + guest actions) enumerated bounded-exhaustively and at random; oracle: future outcome = host decision per operation, exactly-once value delivery, default value on dropped writer, host trap on unwritten drop-writable, ownership ledger, counting allocator; Miri shards; valgrind (thorough)",
    "text": "every observed execution delivered exactly one value per future (the written one, or the default when the writer or its write was dropped), never dropped a writable end unwritten (host trap), and reported cancel outcomes equal to the host's decision; value ids conserved, guest heap balanced except for the documented host-cancelled deferred write. Exploration, not proof",
    "note": "v2 task ABI only (the runtime's own executor); Trusted base: mock host state machines, written from the canonical ABI spec",
}
FLOORS = {"quick": (20000, 5000), "thorough": (200000, 20000)}

RULE = "evaluation = one execution of a scenario (small guest program over streams/futures in 1-2 export tasks or block_on) under one choice vector; distinct = distinct event traces (calls, deliveries, copies, callback codes, guest-visible results) per scenario"


def run(tier, seed, replay):
    return rthost_check.run("C20", "c20", tier, seed, replay, RULE)
