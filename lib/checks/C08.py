"""C08 — Rust async imports and exports deliver the same values as sync ones."""
import c08
import rsguest

META = {
    "engine": "rsguest + rt-host (c08-host)",
    "level": "exploration",
    "technique": "end-to-end differential execution: the rsguest echo machine is generated several times from the same world (all sync / "
                 "imports async / exports async / both / WIT-declared async funcs), linked with the H2-hooked async runtime, the rt-host mock "
                 "component-model host (waitable sets, subtasks, context slot, task.return / task.cancel accounting, choice oracle) and the "
                 "cabi-ref reference host; run natively (x86_64) and under Miri on 32-bit ARM, valgrind in thorough",
    "text": "Random handle-free worlds x generator configurations x binding variants x host schedules (subtask returns at once / "
            "STARTING->STARTED->RETURNED / STARTED->RETURNED, events delivered through callbacks or waitable-set.wait, async export bodies "
            "suspending before/after they build their result, host cancellation at suspension points): the async run must deliver the values "
            "the sync run delivers (four directions, canonical text), restore the guest heap after every completed call, call task.return "
            "exactly once (or task.cancel exactly once when cancelled), keep lowered async-import parameters intact until the callee reads "
            "them at STARTED, drop every subtask exactly once and never trap the host. Held on the executions observed; nothing is proved.",
    "note": "Trusted: cabi-ref, the positional observation channel, rt-host's reading of the canonical built-ins, hooks H1/H2. "
            "Covered: freestanding functions of handle-free worlds (all value types except fixed-length lists, whose defects are C05/C06 findings); "
            "async imports driven by block_on and as tasks; async exports with callback. Resources only as borrow<imported resource> parameters of async exports in a "
            "directed world (host borrow accounting: every lent borrow dropped before task.return); own handles, exported resources and async "
            "methods are left out, as are stream/future/error-context types, stackful async lift and several tasks at once. "
            "Runtime features: `async` only (no async-spawn / inter-task-wakeup). Single-call schedule space is small (about 40 distinct "
            "(choice vector, plan, callback codes, subtask statuses) classes) and is covered nearly exhaustively at every seed. "
            "The generated async glue derives its layouts from size_of::<*const u8>() (checked textually on every run), so native 64-bit runs are "
            "sound for these worlds; the Miri shard runs with 32-bit pointers. Generated code that does not compile is a lead for C09, not a verdict.",
}
FLOORS = {"quick": (1500, 40), "thorough": (15000, 300)}
PREFIXES = ("rust-async:",)


def run(tier, seed, replay):
    rp = replay.get("replay") if replay else None
    rep = c08.run_pipeline(tier, seed, replay=rp)
    rep.rule = ("one evaluation = one call through the generated bindings (async export: lower, [async-lift] entry, callbacks per returned code, "
                "task.return lifted by the host; async import: driver under block_on or as a task, subtask schedule from the mock host's choice "
                "oracle; sync-bound functions as in C05); distinct = (binding kind, function, canonical shape key of parameter and result types, "
                "generator options)")
    if rp:
        global FLOORS
        FLOORS = {"quick": (1, 1), "thorough": (1, 1)}
    return rsguest.filter_for(rep, PREFIXES)
