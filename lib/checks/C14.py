"""C14 — every backend's scalar conversions implement the canonical ABI mapping.

Engine `exprsem` (crates/exprsem, binary `c14 --mode scalars`): every backend
(Rust, C, C++, C#, Go, MoonBit, D) is run in-process under hook H4 on a fixed
world with one import and one export per scalar type, plus the variant-heavy
boundary worlds; for each of the 24 scalar conversion instructions the emitted
expression string is taken together with the generated files.  Rust / C / C++
expressions are wrapped into functions of the operand's declared type, compiled
(rustc debug+release with the generated `_rt` helpers; clang and g++ with
`-fsanitize=undefined -fno-sanitize-recover=all`) and executed; C#, Go, MoonBit
and D expressions are evaluated by typed expression interpreters (a model of
each language's conversion rules — listed in coverage.trusted_base — with helper
functions such as MoonBit's inline-wasm `mbt_ffi_extend8` interpreted from the
generated text).  Oracle: canonical ABI `lower_flat` / `lift_flat` for scalars;
lifts are judged on arbitrary core bits above the type's width."""
import concurrent.futures
import os

import vcommon

META = {
    "engine": "exprsem",
    "level": "exploration",
    "technique": "differential execution of emitted conversion expressions (compiled with UBSan for Rust/C/C++, typed expression "
                 "interpreters for C#/Go/MoonBit/D) against the canonical-ABI scalar mapping",
    "text": "Each distinct (backend, instruction, expression) the generators emit is executed on exhaustive 2^8/2^16 inputs for narrow lowers, "
            "on all 2^16 low halves x 16 boundary/random high halves (quick) or all 2^32 core values (thorough) for 32-bit lifts and lowers, "
            "and on boundary + 10^6 / 10^8 random 64-bit values.  A wrong sign/zero extension, a lift that looks at bits above the type's "
            "width, a changed float bit or a UBSan report is a violation; the level is exploration because 64-bit domains are sampled and "
            "four backends are judged through a model of their language.",
    "note": "C#, Go, MoonBit and D cannot be compiled in this sandbox: their semantics are a model (coverage.trusted_base); an expression shape "
            "the model does not know makes that (backend, instruction) inconclusive, never a verdict.  Operand/result types are probed from the "
            "generated bindings.  bool lifts are judged on {0,1} only and char lifts on unicode scalar values only (generators may assume valid "
            "encodings).  Native runs use 64-bit pointers.",
}
FLOORS = {"quick": (50_000_000, 60), "thorough": (10_000_000_000, 60)}

SHARDS = [["rust"], ["c", "cpp"], ["csharp", "go", "moonbit", "d"]]
SHARDS_THOROUGH = [["rust"], ["c"], ["cpp"], ["csharp"], ["go"], ["moonbit"], ["d"]]


def run_mode(rep, mode, tier, seed, replay, tag):
    bindir = vcommon.cargo_build("exprsem", bins=["c14"])
    exe = os.path.join(bindir, "c14")
    work = vcommon.scratch_dir(tag)
    try:
        extra = []
        shards = SHARDS if tier == "quick" else SHARDS_THOROUGH
        if replay:
            r = replay.get("replay", {})
            b, i, x = r.get("backend"), r.get("instruction"), r.get("input")
            if b and i and x is not None:
                # the recorded input is evaluated first for that (backend, instruction); the rest of the run is the normal one
                extra = ["--replay-backend", str(b), "--replay-inst", str(i), "--replay-input", str(x)]
        # thorough: the harness itself stops enumerating 2^32 domains after VERIF_EXPRSEM_BUDGET_S (default 2400 s)
        # and finishes the remaining cases on the quick domains, so the watchdog is only a last resort
        timeout = 900 if tier == "quick" else 7200

        def one(k):
            out = os.path.join(work, "r%d.json" % k)
            cmd = [exe, "--mode", mode, "--seed", str(seed), "--tier", tier, "--out", out,
                   "--backends", ",".join(shards[k]), "--scratch", os.path.join(work, "w%d" % k)] + extra
            sub = vcommon.Report(rep.prop)
            env = vcommon.base_env({"VERIF_THREADS": str(max(2, vcommon.NPROC // 2))})
            vcommon.run_harness(sub, cmd, timeout=timeout, env=env, out_json=out,
                                what="exprsem %s [%s]" % (mode, ",".join(shards[k])))
            return sub

        with concurrent.futures.ThreadPoolExecutor(max_workers=len(shards)) as ex:
            subs = list(ex.map(one, range(len(shards))))
        for sub in subs:
            _merge(rep, sub)
    finally:
        vcommon.rm_scratch(work)
    return rep


def _merge(rep, sub):
    rep.evaluations += sub.evaluations
    rep.distinct |= sub.distinct
    for s in sub.samples:
        if len(rep.samples) < 12:
            rep.samples.append(s)
    rep.violations += sub.violations
    for i in sub.inconclusive:
        rep.inconc(i.get("why"), i.get("count", 1))
    for a in sub.assumptions:
        if a not in rep.assumptions:
            rep.assumptions.append(a)
    if sub.rule and not rep.rule:
        rep.rule = sub.rule
    for k, v in sub.extra.items():
        cur = rep.extra.get(k)
        if isinstance(v, dict) and isinstance(cur, dict):
            for kk, vv in v.items():
                if isinstance(vv, (int, float)) and isinstance(cur.get(kk), (int, float)) and not isinstance(vv, bool):
                    cur[kk] += vv
                else:
                    cur[kk] = vv
        elif isinstance(v, list) and isinstance(cur, list):
            for x in v:
                if x not in cur:
                    cur.append(x)
        elif isinstance(v, (int, float)) and isinstance(cur, (int, float)) and not isinstance(v, bool):
            rep.extra[k] = cur + v
        else:
            rep.extra[k] = v


def run(tier, seed, replay):
    rep = vcommon.Report("C14", level="exploration", rule="")
    run_mode(rep, "scalars", tier, seed, replay, "c14")
    if "cases" in rep.extra:
        # keep the evidence file readable: per-case table only for judged, non-identity expressions
        rep.extra["cases"] = [c for c in rep.extra["cases"] if not c.get("case", "").split("|")[0].endswith(":opnd0")][:400]
    return rep
