"""C23 — cross-task wake-ups are never lost or duplicated."""
import os
import sys

import vcommon

sys.path.insert(0, os.path.join(vcommon.VERIF, "crates", "rt-host", "py"))
import rthost_check  # noqa: E402

META = {
    "engine": "rt-host",
    "level": "exploration",
    "technique": "real runtime (hook H2, feature inter-task-wakeup with and without async-spawn) against a mock component-model host; two or three export tasks (or one task with joined/spawned parts) share a Rust-level channel built on a stored Waker that is never cleared (stale wakers included); wake-ups are issued from the same task, from another task, repeatedly before the next poll, from a C-ABI waitable callback of an operation polled with another task's waker, from destructors, and after the target exited or was cancelled; the host's unit-stream log (read / write / cancel-read / delivery on each task's internal wake-up stream) is judged per sleep against the wake-ups a waker wrapper reported; bounded-exhaustive + random schedules incl. EVENT_CANCEL; Miri shards; valgrind and ASan (thorough)",
    "text": "on every observed execution each sleep of a task on Rust-level events saw exactly one item written to and read from its wake-up stream iff somebody woke it, repeated wake-ups before the next poll added none, the pending wake-up read was taken out of the waitable set and cancelled (or its completion delivered) before the task polled again or was destroyed, and a task woken while asleep was resumed by the host (bounded progress instead of liveness: a woken task still suspended when the host has nothing left to deliver is a lost wake-up). Exploration, not proof",
    "note": "without the feature only the single-task scenarios run, as a sanity pass (a cross-task wake-up panics there by design and is classified inconclusive). Trusted base: mock host stream rendezvous for the unit payload, hook H3 sleep state",
}
FLOORS = {"quick": (60000, 10000), "thorough": (600000, 50000)}

RULE = "evaluation = one execution of a scenario (tasks sharing a Waker-based channel; wake-ups from the same task, another task, a C-ABI waitable callback, destructors) under one choice vector for one feature set; distinct = distinct event traces per scenario"


def tune(plan, tier):
    plan.smoke_scenario = "c23_same_task"
    plan.plain_pass_in_thorough = False
    if tier == "quick":
        plan.native_args = ["--depth", "9", "--max-exhaustive", "60000", "--random", "4000"]
        extra = ["--depth", "9", "--max-exhaustive", "60000", "--random", "4000"]
        shards = 6
    else:
        plan.native_args = ["--depth", "12", "--max-exhaustive", "500000", "--random", "150000"]
        extra = ["--depth", "11", "--max-exhaustive", "300000", "--random", "80000"]
        shards = 10
        plan.valgrind_args = ["--random", "300", "--max-exhaustive", "800", "--depth", "6"]
        plan.asan_args = ["--random", "2000", "--max-exhaustive", "10000", "--depth", "7"]
    plan.feature_passes = [
        {"tag": "inter-task-wakeup", "features": ["inter-task-wakeup"], "shards": shards, "args": extra},
        {"tag": "plain", "features": [], "shards": 2, "args": extra, "tiers": ("thorough",)},
        {"tag": "async-spawn", "features": ["async-spawn"], "shards": 2, "args": extra, "tiers": ("thorough",)},
    ]


def run(tier, seed, replay):
    rep = rthost_check.run("C23", "c23", tier, seed, replay, RULE, tune=tune)
    if replay is not None:
        rthost_check.replay_floor(rep, FLOORS, tier)
    return rep
