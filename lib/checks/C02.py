"""C02 — call glue follows the canonical calling convention for every signature.

`wit_bindgen_core::abi::call` is run for every (ABI variant, direction, async flag)
under the interpreting Bindgen (crate abi-interp); the instruction stream is
executed with a scripted callee and judged against the reference signature,
parameter passing and result passing of cabi-ref."""
import os
import sys
import vcommon
sys.path.insert(0, os.path.join(vcommon.VERIF, "crates", "abi-interp", "py"))
import abiinterp_driver as _abiinterp  # noqa: E402

META = {
    "engine": "abi-interp",
    "level": "exploration",
    "technique": "reference-model monitor: abi::call instruction stream executed by an abstract machine with a scripted callee, judged by an independent signature/param/result model",
    "text": "For every function and every (variant, direction, async) the glue is executed on concrete values at pointer widths 4 and 8: core signature vs cabi-ref (not Resolve::wasm_signature), flat vs indirect parameters at the 16 / 4 limits, direct / return-area / task.return results at the 1 / 16 limits, exactly one call and one Return or AsyncTaskReturn, the caller-allocated parameter record freed exactly once with its size/align, values delivered unchanged, nothing executed after Return. Held = on the signatures and value sets run.",
    "note": "Combinations with an explicit todo!()/unreachable!() in abi.rs are a fixed whitelist (coverage.whitelist_explicit); combinations whose async flag contradicts the variant and async-variant lowering through abi::call (used by no backend, no convention defined) are counted as unsupported-undefined, not alarmed; this includes the non-explicit `assert_eq!(self.stack.len(), sig.params.len())` that (GuestImportAsync, lower, async) hits for a function with a result and <= 4 flat params (the return pointer is never pushed) - no backend reaches abi::call that way (async imports are lowered by hand with lower_flat / lower_to_memory). Exported-method self pointers are only run at pointer width 4 (wit-parser models the rep as a pointer).",
}
FLOORS = {"quick": (20000, 200), "thorough": (400000, 1500)}


def run(tier, seed, replay):
    if replay is not None:
        # a replay re-executes one case: the coverage floors do not apply
        global FLOORS
        FLOORS = {"quick": (1, 1), "thorough": (1, 1)}
    rep = vcommon.Report("C02", level="exploration",
                         rule="case = (function signature, ABI variant, direction, async flag, pointer width, value set); distinct = (flattened parameter shapes -> result shape) keys")
    _abiinterp.run_bin(rep, "c02", tier, seed, replay, timeout=900 if tier == "quick" else 3600, miri_shard=(tier == "thorough"))
    return rep
