"""C18 — waitables are registered, delivered and unregistered exactly."""
import os
import sys

import vcommon

sys.path.insert(0, os.path.join(vcommon.VERIF, "crates", "rt-host", "py"))
import rthost_check  # noqa: E402

META = {
    "engine": "rt-host",
    "level": "exploration",
    "technique": "real runtime linked (hook H2) against a mock component-model host; schedules = choice vectors (host decisions + guest actions) enumerated bounded-exhaustively and at random; monitors M1 set ledger, M2 registration snapshots (hook H3, every registered callback_ptr probed), M3 delivery; Miri shards; valgrind (thorough)",
    "text": "every observed execution kept each pending operation registered with the running task's set while it waited, left every set before cancel/drop, and reflected each delivered event exactly once; no registered pointer was dangling (probed under Miri). Exploration, not proof: bounded depth, two payload types, at most two tasks",
    "note": "v2 task ABI only (the runtime's own executor); the v1-ABI harness executor of DESIGN C18 is not implemented. Trusted base: mock host state machines, written from the canonical ABI spec",
}
FLOORS = {"quick": (20000, 5000), "thorough": (200000, 20000)}

RULE = "evaluation = one execution of a scenario (small guest program over streams/futures in 1-2 export tasks or block_on) under one choice vector; distinct = distinct event traces (calls, deliveries, copies, callback codes, guest-visible results) per scenario"


def run(tier, seed, replay):
    return rthost_check.run("C18", "c18", tier, seed, replay, RULE)
