"""C07 — Rust guest bindings keep resource and handle ownership exact."""
import rsguest

META = {
    "engine": "rsguest",
    "level": "exploration",
    "technique": "reference resource tables (own/borrow entries, lend counts, borrow scopes, never-reused indices) + object ledger driven by "
                 "host-chosen random histories against the generated bindings, natively (x86_64 debug+release, representations kept below "
                 "4 GiB) and under Miri (32-bit ARM)",
    "text": "Worlds with imported and exported resources (a hand-written world with every handle position + random witgen worlds): create via "
            "constructor/static, call methods through borrows, pass own handles in and out directly and nested in record/variant/option/"
            "result/list/tuple, lend, keep, drop. Table traps, leaked or doubly dropped handles, wrong object behind a handle, [dtor] not "
            "exactly once are violations. Held on the histories observed.",
    "note": "The host implements [resource-new]/[resource-rep]/[resource-drop] and calls [dtor]; user resource values carry a unique id and "
            "report their destruction. Error-context handles and futures/streams are not exercised here (async runtime: C08/C18-20). "
            "`into_inner` is user API and not driven.",
}
FLOORS = {"quick": (500, 60), "thorough": (20000, 400)}
PREFIXES = ("rust-res:", "rust-mem:", "rust-e2e:")


def run(tier, seed, replay):
    rp = replay.get("replay") if replay else None
    rep = rsguest.run_pipeline("C07", "resources", tier, seed, replay=rp)
    rep.rule = ("one evaluation = one history operation (export/import call with handle-carrying values, host drop of a guest object, user "
                "code dropping what it kept); distinct = (operation kind, canonical shape key of the signature, keep/drop disposition) "
                "and histories")
    if rp:
        global FLOORS
        FLOORS = {"quick": (1, 1), "thorough": (1, 1)}
    return rsguest.filter_for(rep, PREFIXES)
