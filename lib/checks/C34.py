"""C34 - test configuration comes from the leading comment block (reference monitor over random files)."""
import os
import vcommon

META = {
    "engine": "corelib-mon",
    "level": "exploration",
    "technique": "reference-model monitor over seeded random test files against the real crates/test/src/config.rs compiled into the harness",
    "text": "For random files (leading marker lines, blank lines, code, later marker lines) parse_test_config must return what the same toml crate returns for the text formed by the leading marker lines only, field by field, and StringList strings must convert to the list of their whitespace separated words. Holds on the K files observed.",
    "note": "Trusted base: the toml crate and serde derive of the config types (shared by both sides); only the choice of text and the word splitting are judged. \\n line ends only.",
}
FLOORS = {"quick": (30000, 2000), "thorough": (1000000, 5000)}
BIN = "c34"
FEATURES = None
RULE = "case = one random file parsed as RuntimeTestConfig or WitConfig plus one StringList conversion; distinct = (marker, type, per-line class string) of files whose leading block is non-empty and parses"


def run(tier, seed, replay):
    rep = vcommon.Report("C34", level=META["level"], rule=RULE)
    bindir = vcommon.cargo_build("corelib-mon", bins=[BIN], features=FEATURES)
    d = vcommon.scratch_dir(BIN)
    out = os.path.join(d, "r.json")
    cmd = [os.path.join(bindir, BIN), "--seed", str(seed), "--tier", tier, "--out", out]
    if replay:
        # a replay file names the generator seed, the case stream and the case index; the
        # harness regenerates exactly that case (case RNGs depend on (seed, stream, index) only)
        r = replay.get("replay", {})
        cmd = [os.path.join(bindir, BIN), "--seed", str(r.get("seed", replay.get("seed", seed))),
               "--tier", replay.get("tier", tier), "--out", out,
               "--stream", str(r.get("stream", "")), "--case", str(r.get("case", 0))]
    try:
        vcommon.run_harness(rep, cmd, timeout=600 if tier == "quick" else 5400, out_json=out,
                            env=vcommon.base_env(), what="c34 harness")
    finally:
        vcommon.rm_scratch(d)
    return rep
