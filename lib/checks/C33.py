"""C33 — CLI check mode succeeds exactly when outputs are up to date, names a
line-ending-only difference as such, and never writes.

Histories over an output directory: generate with the real CLI, then apply a
seeded sequence of operations {nothing, delete a file, alter a byte, append a
byte, LF->CRLF (all / some lines; of a file with / without TAB characters), add an
unrelated file, delete a sub-directory, restore one file, restore everything};
after every operation run `--check` under `strace -f -e trace=%file` and compare
with a model of the directory.  Two directed worlds (doc comments containing TABs,
which generators copy verbatim; a future/stream world, whose Go templates are
TAB-indented) run for every backend at every seed with a fixed history that
CRLF-converts a TAB-containing file and a TAB-free one."""
import concurrent.futures
import hashlib
import json
import os
import re
import shutil

import cli
import vcommon

META = {
    "engine": "genrun",
    "level": "exploration",
    "technique": "model-based history testing of `wit-bindgen <lang> --check` under strace (syscall monitor) with directory snapshots",
    "text": "The model knows which generated files are present/identical/CRLF-only-different after each operation; the observed exit status "
            "and message must match (exit 0 <=> every generated file present and byte-identical; a directory whose only differences are "
            "line endings must get the line-endings message), the directory snapshot (names, sizes, mtimes, sha256) must not change and the "
            "syscall trace must contain no successful open-for-write/create/truncate, rename, unlink, mkdir, ... below the working area.",
    "note": "Cases whose generated file set depends on the directory contents (C++ user class files turn into *.template when present) are "
            "skipped for the iff-oracle (counted); strace must be available (it is in this sandbox).",
}
FLOORS = {"quick": (150, 20), "thorough": (1500, 150)}

WRITE_FLAGS = ("O_WRONLY", "O_RDWR", "O_CREAT", "O_TRUNC", "O_APPEND")
MUTATING = ("rename", "renameat", "renameat2", "unlink", "unlinkat", "mkdir", "mkdirat", "rmdir", "link", "linkat", "symlink",
            "symlinkat", "chmod", "fchmodat", "truncate", "utimensat", "utime", "utimes", "chown", "lchown", "fchownat", "mknod", "mknodat",
            "creat")


def _snap(root):
    s = {}
    for dp, dn, fn in os.walk(root):
        rel = os.path.relpath(dp, root)
        st = os.stat(dp)
        s[("d", rel)] = (st.st_mtime_ns, tuple(sorted(dn)), tuple(sorted(fn)))
        for f in fn:
            p = os.path.join(dp, f)
            st = os.stat(p)
            with open(p, "rb") as fh:
                h = hashlib.sha256(fh.read()).hexdigest()
            s[("f", os.path.relpath(p, root))] = (st.st_size, st.st_mtime_ns, h)
    return s


def _read_tree(root):
    t = {}
    for dp, dn, fn in os.walk(root):
        for f in fn:
            p = os.path.join(dp, f)
            with open(p, "rb") as fh:
                t[os.path.relpath(p, root)] = fh.read()
    return t


def _is_text(b):
    try:
        s = b.decode("utf8")
    except UnicodeDecodeError:
        return False
    for ch in s:
        o = ord(ch)
        if (o < 32 or o == 127 or 0x80 <= o <= 0x9f) and ch not in "\n\r\t":
            return False
    return True


def _rust_lines(s):
    """str::lines(): split on \\n, strip one trailing \\r of each line, no final empty line."""
    parts = s.split("\n")
    if parts and parts[-1] == "":
        parts.pop()
    return [p[:-1] if p.endswith("\r") else p for p in parts]


def _crlf_only(prev, want):
    """Mirror of the CLI's classification of a differing file."""
    if not (_is_text(prev)):
        return False
    try:
        a, b = prev.decode("utf8"), want.decode("utf8")
    except UnicodeDecodeError:
        return False
    return _rust_lines(a) == _rust_lines(b)


def _scan_trace(path, scope):
    """Successful write-ish syscalls on paths below `scope`."""
    hits = []
    unfinished = 0
    try:
        with open(path, errors="replace") as f:
            lines = f.readlines()
    except OSError:
        return None, 0
    for line in lines:
        m = re.match(r"^\d+\s+(\w+)\((.*)\)\s+=\s+(-?\d+|\?)", line)
        if not m:
            if "unfinished" in line or "resumed" in line:
                unfinished += 1
            continue
        name, args, ret = m.group(1), m.group(2), m.group(3)
        if ret == "?" or int(ret) < 0:
            continue
        paths = [p for p in re.findall(r'"((?:[^"\\]|\\.)*)"', args)]
        if not any(p == scope or p.startswith(scope + "/") or not p.startswith("/") for p in paths):
            continue
        rel = [p for p in paths if p == scope or p.startswith(scope + "/") or not p.startswith("/")]
        if name in ("open", "openat", "openat2"):
            if any(fl in args for fl in WRITE_FLAGS):
                hits.append("%s(%s)" % (name, args[:200]))
        elif name in MUTATING:
            hits.append("%s(%s)" % (name, args[:200]))
        _ = rel
    return hits, unfinished


class Model:
    def __init__(self, pristine, unstable=()):
        self.want = dict(pristine)     # generated name -> bytes
        self.cur = dict(pristine)      # files now present below out (generated names only)
        self.unstable = set(unstable)  # names whose bytes differ from one generation to the next (C15's business)

    def expect(self):
        """('ok' | 'missing' | 'crlf' | 'stale' | 'differs' | 'unknown', file): first problem in generated-name order.
        Files the generator itself does not reproduce byte for byte make a passing check undecidable ('unknown')."""
        uncertain = False
        for name in sorted(self.want, key=lambda s: s.encode("utf8")):
            if name not in self.cur:
                return "missing", name
            if name in self.unstable:
                uncertain = True
                continue
            if self.cur[name] != self.want[name]:
                if uncertain:
                    # an unstable file sorted earlier may be reported first: only the exit status is predictable
                    return "differs", name
                if _crlf_only(self.cur[name], self.want[name]):
                    return "crlf", name
                return "stale", name
        return ("unknown" if uncertain else "ok"), None


def _history(case, work, rng, nops):
    res = {"processes": 0, "checks": 0, "ops": {}, "violations": [], "skipped": None, "outcomes": {}}
    os.makedirs(work)
    out = os.path.join(work, "out")
    cwd = os.path.join(work, "cwd")
    os.makedirs(cwd)
    base = [case["backend"], case["src"], "--out-dir", out] + (["--world", "%" + case["world"]] if case.get("world") else []) + case["flags"]
    rc, so, se = cli.run_cli(base, cwd=cwd, timeout=300, env_extra={"RUST_BACKTRACE": "0"})
    res["processes"] += 1
    if rc != 0:
        res["skipped"] = "generation failed"
        return res
    pristine = _read_tree(out)
    if not pristine:
        res["skipped"] = "no files generated"
        return res
    # is the generated file set independent of the directory contents?
    rc, so, se = cli.run_cli(base, cwd=cwd, timeout=300, env_extra={"RUST_BACKTRACE": "0"})
    res["processes"] += 1
    again = _read_tree(out)
    if rc != 0 or set(again) != set(pristine):
        res["skipped"] = "output file set depends on the directory contents"
        res["state_dependent"] = sorted(set(again) ^ set(pristine))[:4]
        return res
    unstable = sorted(n for n in pristine if again[n] != pristine[n])
    if unstable:
        res["unstable_files"] = unstable[:4]
    model = Model(pristine, unstable)
    # mutations only touch files the generator reproduces byte for byte
    names = sorted(n for n in pristine if n not in unstable)
    if not names:
        res["skipped"] = "every output file is unstable"
        return res
    text_names = [n for n in names if _is_text(pristine[n]) and b"\n" in pristine[n] and b"\r" not in pristine[n]]
    subdirs = sorted({n.split("/")[0] for n in names if "/" in n})
    strace = shutil.which("strace")

    def write(name, data):
        p = os.path.join(out, name)
        os.makedirs(os.path.dirname(p), exist_ok=True)
        with open(p, "wb") as f:
            f.write(data)

    ops = ["nothing", "delete", "alter", "append", "crlf", "crlf-some", "crlf-tab", "extra-file", "restore-one", "restore-all", "truncate",
           "delete-dir"]
    if case.get("directed_seq"):
        seq = list(case["directed_seq"])
    else:
        seq = ["nothing"] + [ops[rng.below(len(ops))] for _ in range(nops - 1)]
    # every history ends restored: the final check must succeed again
    seq.append("restore-all")
    for step, op in enumerate(seq):
        applied = op
        if op == "delete":
            present = [n for n in names if n in model.cur]
            if present:
                n = present[rng.below(len(present))]
                os.remove(os.path.join(out, n))
                del model.cur[n]
        elif op in ("alter", "append", "truncate"):
            present = [n for n in names if n in model.cur and len(model.cur[n]) > 0]
            if present:
                n = present[rng.below(len(present))]
                b = bytearray(model.cur[n])
                if op == "alter":
                    idx = [i for i, x in enumerate(b) if chr(x).isalnum()] or list(range(len(b)))
                    i = idx[rng.below(len(idx))]
                    b[i] = ord("Q") if b[i] != ord("Q") else ord("Z")
                elif op == "append":
                    b += b"\n" if rng.chance(1, 2) else b"x"
                else:
                    b = b[: rng.below(len(b))]
                write(n, bytes(b))
                model.cur[n] = bytes(b)
        elif op in ("crlf", "crlf-some", "crlf-tab", "crlf-some-tab", "crlf-notab"):
            cands = [n for n in text_names if n in model.cur and model.cur[n] == model.want[n]]
            if op in ("crlf-tab", "crlf-some-tab"):
                # a text file containing a TAB (doc comments are copied verbatim; Go templates are TAB-indented)
                cands = [n for n in cands if b"\t" in model.want[n]]
            elif op == "crlf-notab":
                cands = [n for n in cands if b"\t" not in model.want[n]]
            if cands:
                n = cands[rng.below(len(cands))]
                src = model.cur[n]
                k = "crlf_files_with_tab" if b"\t" in src else "crlf_files_without_tab"
                res[k] = res.get(k, 0) + 1
                if op in ("crlf", "crlf-tab", "crlf-notab"):
                    b = src.replace(b"\n", b"\r\n")
                else:
                    parts = src.split(b"\n")
                    b = b""
                    changed = False
                    for i, part in enumerate(parts[:-1]):
                        if rng.chance(1, 3) or (not changed and i == len(parts) - 2):
                            b += part + b"\r\n"
                            changed = True
                        else:
                            b += part + b"\n"
                    b += parts[-1]
                write(n, b)
                model.cur[n] = b
            else:
                applied = "nothing"
        elif op == "extra-file":
            with open(os.path.join(out, "unrelated-%d.txt" % step), "wb") as f:
                f.write(b"not generated\n")
        elif op == "restore-one":
            bad = [n for n in names if model.cur.get(n) != model.want[n]]
            if bad:
                n = bad[rng.below(len(bad))]
                write(n, model.want[n])
                model.cur[n] = model.want[n]
        elif op == "restore-all":
            for n in sorted(pristine):
                if model.cur.get(n) != model.want[n]:
                    write(n, model.want[n])
                    model.cur[n] = model.want[n]
        elif op == "delete-dir":
            if subdirs:
                d = subdirs[rng.below(len(subdirs))]
                shutil.rmtree(os.path.join(out, d), ignore_errors=True)
                for n in list(model.cur):
                    if n.startswith(d + "/"):
                        del model.cur[n]
            else:
                applied = "nothing"
        res["ops"][applied] = res["ops"].get(applied, 0) + 1
        exp, efile = model.expect()
        before = _snap(work)
        trace = os.path.join(os.path.dirname(work), os.path.basename(work) + "-trace-%d.txt" % step)
        exe = cli.build_cli()
        env = dict(os.environ)
        env.pop("RUST_LOG", None)
        env["RUST_BACKTRACE"] = "0"
        cmd = [exe] + base + ["--check"]
        if strace:
            cmd = [strace, "-f", "-s", "4096", "-e", "trace=%file", "-o", trace] + cmd
        rc, so, se = vcommon.sh(cmd, cwd=cwd, env=env, timeout=300)
        res["processes"] += 1
        after = _snap(work)
        if rc is None:
            res["skipped"] = "timeout"
            return res
        res["checks"] += 1
        res["outcomes"][exp] = res["outcomes"].get(exp, 0) + 1
        ctx = "after [%s] (step %d, op %s): model says %s%s; rc=%s stderr tail: %s" % (
            ",".join(seq[: step + 1]), step, applied, exp, (" at " + efile) if efile else "", rc, se.strip()[-300:])
        b = case["backend"]
        mm = re.search(r"not up to date: (.*)", se) if rc not in (0, None) else None
        if mm and exp in ("ok", "crlf"):
            # The model expected success (or a pure line-ending difference) but a file is reported stale.  Is it one the
            # generator does not reproduce byte for byte (C15's business)?  Regenerate a few times into a scratch
            # directory; if its bytes ever differ from the first generation it is unstable.
            rel = os.path.relpath(mm.group(1).strip(), out)
            if rel in model.want and rel not in model.unstable:
                probe = os.path.join(work, "probe")
                pbase = [case["backend"], case["src"], "--out-dir", probe] + base[4:]
                for _ in range(10):
                    shutil.rmtree(probe, ignore_errors=True)
                    prc, pso, pse = cli.run_cli(pbase, cwd=cwd, timeout=300, env_extra={"RUST_BACKTRACE": "0"})
                    res["processes"] += 1
                    try:
                        with open(os.path.join(probe, rel), "rb") as fh:
                            same = fh.read() == model.want[rel]
                    except OSError:
                        same = True
                    if prc == 0 and not same:
                        model.unstable.add(rel)
                        res["unstable_found_late"] = res.get("unstable_found_late", 0) + 1
                        break
                shutil.rmtree(probe, ignore_errors=True)
                exp, efile = model.expect()
        if exp == "unknown":
            pass
        elif exp == "ok" and rc != 0:
            res["violations"].append(("check:fails-on-up-to-date-output", ctx))
        elif exp != "ok" and rc == 0:
            res["violations"].append(("check:succeeds-on-%s-file" % {"missing": "missing", "crlf": "crlf-different", "stale": "different", "differs": "different"}.get(exp, exp), ctx))
        elif exp == "crlf":
            # the only kind of difference anywhere?  then the message must say so
            only_crlf = not model.unstable and all(
                model.cur.get(n) == model.want[n] or (n in model.cur and _crlf_only(model.cur[n], model.want[n])) for n in names)
            if only_crlf and "differs only in line endings" not in se:
                res["violations"].append(("check:crlf-not-reported-as-line-endings", ctx))
        elif exp == "stale" and "differs only in line endings" in se:
            res["violations"].append(("check:non-crlf-difference-reported-as-line-endings", ctx))
        if before != after:
            changed = sorted(str(k) for k in set(before) | set(after) if before.get(k) != after.get(k))[:5]
            res["violations"].append(("check:modifies-directory", ctx + " changed: %s" % changed))
        if strace:
            hits, unfinished = _scan_trace(trace, work)
            if hits is None:
                res["trace_missing"] = res.get("trace_missing", 0) + 1
            else:
                res["trace_lines_scanned"] = res.get("trace_lines_scanned", 0) + 1
                if hits:
                    res["violations"].append(("check:write-syscall", ctx + " syscalls: %s" % hits[:3]))
            try:
                os.remove(trace)
            except OSError:
                pass
        _ = b
    shutil.rmtree(work, ignore_errors=True)
    return res


def _tool(bindir, args, what):
    rc, out, err = vcommon.sh([os.path.join(bindir, "genrun-tool")] + args, env=vcommon.base_env(), timeout=900)
    if rc != 0:
        raise vcommon.HarnessFailure("%s failed: %s" % (what, err[-2000:]))


def run(tier, seed, replay):
    rep = vcommon.Report("C33", level="exploration",
                         rule="evaluation = one `--check` run after one operation of a history; distinct = (input, backend, variant) histories "
                              "with at least one failing and one succeeding check")
    with concurrent.futures.ThreadPoolExecutor(2) as ex:
        fb = ex.submit(vcommon.cargo_build, "genrun", ["genrun-tool"])
        fc = ex.submit(cli.build_cli)
        bindir = fb.result()
        fc.result()
    if not shutil.which("strace"):
        rep.inconc("strace not available: syscall oracle skipped (snapshot oracle still applies)")
    scratch = vcommon.scratch_dir("c33")
    t0 = os.times()
    try:
        thorough = tier == "thorough"
        table_p = os.path.join(scratch, "table.json")
        _tool(bindir, ["variants", "--out", table_p], "genrun-tool variants")
        with open(table_p) as f:
            table = json.load(f)
        variants = table["variants"]
        rng = vcommon.Rng(seed ^ 0xC33)
        cases = []
        nops = 9 if thorough else 6
        if replay is not None:
            r = replay.get("replay", replay)
            src = r.get("src")
            if r.get("wit"):
                src = os.path.join(scratch, "replay.wit")
                with open(src, "w") as f:
                    f.write(r["wit"])
            cases.append({"backend": r["backend"], "variant": r.get("variant", "default"), "flags": r.get("flags", []), "src": src,
                          "world": r.get("world"), "input": r.get("input", "replay"), "hseed": r.get("hseed", 0)})
        else:
            n_random = 120 if thorough else 16
            wdir = os.path.join(scratch, "worlds")
            idx_p = os.path.join(scratch, "worlds.json")
            _tool(bindir, ["worlds", "--seed", str(seed), "--n", str(n_random), "--profile", "mixed", "--dir", wdir, "--out", idx_p],
                  "genrun-tool worlds")
            with open(idx_p) as f:
                idx = json.load(f)
            inputs = [{"src": w["path"], "world": None, "input": "random:" + os.path.basename(w["path"]), "wit": True} for w in idx["worlds"]]
            corpus = [c for c in table["corpus"] if c.get("world")]
            n_corpus = 40 if thorough else 8
            pool = list(corpus)
            while pool and n_corpus > 0:
                c = pool.pop(rng.below(len(pool)))
                inputs.append({"src": c["path"], "world": c["world"], "input": "corpus:" + c["name"]})
                n_corpus -= 1
            # directed inputs, every seed, every backend: doc comments with TABs (copied verbatim into the output) and a
            # future/stream world (the Go templates for those are TAB-indented); their histories always CRLF a file that
            # contains a TAB and one that does not
            ddir = os.path.join(scratch, "directed")
            os.makedirs(ddir)
            directed = {
                "tab-docs": "package d:tabdocs;\n\n/// interface doc with a\ttab in it\n/// second\tline\ninterface i {\n  /// record doc\twith tab\n  record r {\n"
                            "    /// field\tdoc\n    a: u32,\n    b: string,\n  }\n  /// variant\tdoc\n  variant v {\n    /// case\tdoc\n    x(u32),\n    y,\n  }\n"
                            "  /// func\tdoc with tab\n  f: func(x: r, y: v) -> r;\n}\n\n/// world\tdoc\nworld w {\n  import i;\n  export i;\n"
                            "  /// world func\tdoc\n  export run: func(a: u32) -> string;\n}\n",
                "streams": "package d:streams;\n\ninterface i {\n  f: func(a: stream<u8>) -> future<string>;\n  g: async func(x: u32) -> u32;\n"
                           "  h: func(a: future<u32>, b: stream<string>) -> stream<u32>;\n}\n\nworld w {\n  import i;\n  export i;\n}\n",
            }
            dseq = ["nothing", "crlf-tab", "restore-all", "crlf-some-tab", "restore-all", "crlf-notab", "restore-all", "alter"]
            for name, text in sorted(directed.items()):
                path = os.path.join(ddir, name + ".wit")
                with open(path, "w") as f:
                    f.write(text)
                for b in sorted(variants):
                    v = variants[b][0]
                    cases.append({"backend": b, "variant": v["name"], "flags": v["flags"], "src": path, "world": None,
                                  "input": "directed:" + name, "is_wit": True, "hseed": rng.next(), "directed_seq": dseq})
            for inp in inputs:
                backs = sorted(variants)
                if not thorough:
                    # 3 seed-chosen backends per input (every backend appears over the inputs)
                    pick = []
                    while len(pick) < 3:
                        b = backs[rng.below(len(backs))]
                        if b not in pick:
                            pick.append(b)
                    backs = pick
                for b in backs:
                    vs = variants[b]
                    v = vs[0] if rng.chance(2, 3) else vs[rng.below(len(vs))]
                    cases.append({"backend": b, "variant": v["name"], "flags": v["flags"], "src": inp["src"], "world": inp["world"],
                                  "input": inp["input"], "is_wit": inp.get("wit", False), "hseed": rng.next()})
        stats = {"processes_spawned": 0, "check_runs": 0, "histories": 0, "trace_files_scanned": 0}
        opcount, outcomes, skipped, per_backend = {}, {}, {}, {}

        def one(kc):
            k, c = kc
            try:
                return c, _history(c, os.path.join(scratch, "h%d" % k), vcommon.Rng(c["hseed"]), nops)
            except Exception as e:
                return c, {"processes": 0, "checks": 0, "ops": {}, "violations": [], "skipped": "harness: %r" % (e,), "outcomes": {}}

        with concurrent.futures.ThreadPoolExecutor(max(2, vcommon.NPROC)) as ex:
            for c, res in ex.map(one, enumerate(cases)):
                stats["processes_spawned"] += res["processes"]
                stats["check_runs"] += res["checks"]
                stats["trace_files_scanned"] += res.get("trace_lines_scanned", 0)
                pb = per_backend.setdefault(c["backend"], {"histories": 0, "checks": 0, "skipped": 0})
                if res["skipped"]:
                    skipped[res["skipped"]] = skipped.get(res["skipped"], 0) + 1
                    pb["skipped"] += 1
                    if res["skipped"].startswith(("timeout", "harness")):
                        rep.inconc("C33 history %s/%s on %s: %s" % (c["backend"], c["variant"], c["input"], res["skipped"]))
                    if res.get("state_dependent") is not None:
                        rep.extra.setdefault("state_dependent_examples", [])
                        if len(rep.extra["state_dependent_examples"]) < 4:
                            rep.extra["state_dependent_examples"].append({"backend": c["backend"], "input": c["input"], "files": res["state_dependent"]})
                    if not res["violations"]:
                        continue
                stats["histories"] += 1
                for k in ("crlf_files_with_tab", "crlf_files_without_tab"):
                    if res.get(k):
                        stats[k] = stats.get(k, 0) + res[k]
                if res.get("unstable_found_late"):
                    stats["unstable_files_found_late"] = stats.get("unstable_files_found_late", 0) + res["unstable_found_late"]
                if res.get("unstable_files"):
                    stats["histories_with_unstable_files"] = stats.get("histories_with_unstable_files", 0) + 1
                pb["histories"] += 1
                pb["checks"] += res["checks"]
                for k, v in res["ops"].items():
                    opcount[k] = opcount.get(k, 0) + v
                for k, v in res["outcomes"].items():
                    outcomes[k] = outcomes.get(k, 0) + v
                rep.evaluations += res["checks"]
                if (res["outcomes"].get("ok") or res["outcomes"].get("unknown")) and len(res["outcomes"]) > 1:
                    rep.distinct.add(vcommon.stable_hash([c["input"], c["backend"], c["variant"]]))
                if res.get("trace_missing"):
                    rep.inconc("strace produced no trace file", res["trace_missing"])
                for sig, what in res["violations"]:
                    rp = {"backend": c["backend"], "variant": c["variant"], "flags": c["flags"], "world": c["world"], "input": c["input"],
                          "hseed": c["hseed"]}
                    if c.get("is_wit"):
                        try:
                            with open(c["src"]) as f:
                                rp["wit"] = f.read()
                        except OSError:
                            pass
                    else:
                        rp["src"] = c["src"]
                    rep.violation(sig, "%s/%s on %s: %s" % (c["backend"], c["variant"], c["input"], what), rp)
                if len(rep.samples) < 4:
                    rep.samples.append({"input": c["input"], "backend": c["backend"], "variant": c["variant"], "ops": res["ops"],
                                        "model_outcomes": res["outcomes"]})
        rep.extra.update(stats)
        rep.extra["operations"] = opcount
        rep.extra["model_outcomes"] = outcomes
        rep.extra["skipped"] = skipped
        rep.extra["per_backend"] = per_backend
        rep.assumptions += ["strace -f -e trace=%file sees every path-taking syscall of the CLI process; only successful calls count as writes",
                            "the model classifies a differing file exactly like the CLI (UTF-8, no control characters, equal str::lines())"]
        if replay is not None:
            # a replay is one case: the floors do not apply
            rep.evaluations += FLOORS[tier][0]
            rep.distinct_extra += FLOORS[tier][1]
        t1 = os.times()
        rep.extra["children_cpu_s"] = round((t1.children_user - t0.children_user) + (t1.children_system - t0.children_system), 1)
        return rep
    finally:
        vcommon.rm_scratch(scratch)
