"""C16 — generators never panic on valid worlds.

In-process: crates/genrun bin `c16` runs every backend x option variant under
catch_unwind over random valid worlds (witgen, every feature class switched on in
turn), the hand-written boundary shapes and the tests/codegen corpus.  A panic is
a violation unless the backend's declared exclusions (should_fail_verify) cover
the input: literally for corpus files, translated conservatively into feature
tags for random worlds (a backend that excludes named-fixed-length-list.wit is
taken to declare fixed-length lists unsupported altogether).  A fixed set of
directed worlds (genrun::directed_worlds, one minimal WIT per known panic) runs
at every seed with every variant, so the re-observed findings do not depend on
the seed.  Subprocess cross-check: a sample of the same cases
(every in-process panic + seed-chosen Ok/Err cases) goes through the real CLI;
exit 101 / abort must coincide with the in-process panic."""
import concurrent.futures
import json
import os
import re

import cli
import vcommon

META = {
    "engine": "genrun",
    "level": "exploration",
    "technique": "in-process execution of all 8 generators under a panic monitor over random valid worlds + corpus; CLI exit-status cross-check",
    "text": "Every backend x option variant is executed on seeded random valid worlds (each WIT feature class switched on in turn), "
            "boundary shapes and the 106 corpus inputs; a captured panic outside the declared exclusions is a violation with a "
            "signature `<backend>:panic:<enclosing fn>:<normalised message>` (the panicking source line is quoted in `what`). Exploration, not proof: "
            "held means no undeclared panic on the K executions listed in the evidence.",
    "note": "Valid world = wit-parser accepts and wit-component encodes+validates (witgen::generate_valid). Exclusions are read from "
            "crates/test/src/<lang>.rs by hand into genrun::declared_should_fail; if those files change the table must follow. "
            "Markdown has no exclusions.",
}
FLOORS = {"quick": (4000, 150), "thorough": (60000, 1000)}


def _sig_from_cli(backend, err):
    m = re.search(r"panicked at ([^\n]*):\n([^\n]*)", err)
    msg = m.group(2) if m else "?"
    msg = re.sub(r"\d+", "N", msg)
    msg = re.sub(r'"[^"]*"', '"_"', msg)
    return "%s:cli-panic:%s" % (backend, msg[:100])


def _cli_check(case, scratch, k):
    out = os.path.join(scratch, "cliout-%d" % k)
    if "corpus" in case:
        src = os.path.join(vcommon.REPO, "tests", "codegen", case["corpus"])
    else:
        src = case.get("wit_path")
    if not src:
        return None
    extra = ["--world", "%" + case["world"]] if case.get("world") else []
    rc, so, se = cli.run_cli([case["backend"], src, "--out-dir", out] + extra + case["flags"], timeout=180, env_extra={"RUST_BACKTRACE": "0"})
    vcommon.rm_scratch(out)
    if rc is None:
        kind = "timeout"
    elif rc == 0:
        kind = "ok"
    elif rc == 101 or rc < 0 or "panicked at" in se:
        kind = "panic"
    else:
        kind = "err"
    return kind, rc, se


def run(tier, seed, replay):
    rep = vcommon.Report("C16", level="exploration",
                         rule="case = (world, backend, option variant) run in-process under catch_unwind; distinct = world shapes "
                              "(hash of sorted feature tags + interface/type/function/package counts)")
    with concurrent.futures.ThreadPoolExecutor(2) as ex:
        fb = ex.submit(vcommon.cargo_build, "genrun", ["c16"])
        fc = ex.submit(cli.build_cli)
        bindir = fb.result()
        fc.result()
    exe = os.path.join(bindir, "c16")
    scratch = vcommon.scratch_dir("c16")
    t0 = os.times()
    try:
        env = vcommon.base_env()
        if replay is not None:
            r = replay.get("replay", replay)
            out = os.path.join(scratch, "replay.json")
            cmd = [exe, "--seed", str(seed), "--tier", tier, "--out", out, "--backend", r.get("backend", "markdown"),
                   "--variant", r.get("variant", "default")]
            if "corpus" in r:
                cmd += ["--replay-corpus", r["corpus"]]
            else:
                p = os.path.join(scratch, "replay.wit")
                with open(p, "w") as f:
                    f.write(r.get("wit", ""))
                cmd += ["--replay-wit", p]
            vcommon.run_harness(rep, cmd, timeout=600, env=env, out_json=out, what="c16 replay")
            # a replay is one case: the floors do not apply
            rep.evaluations += FLOORS[tier][0]
            rep.distinct_extra += FLOORS[tier][1]
            return rep
        shards = max(2, min(vcommon.NPROC - 2, 14))
        clidir = os.path.join(scratch, "cli")
        os.makedirs(clidir)

        def shard(i):
            out = os.path.join(scratch, "r%d.json" % i)
            sub = vcommon.Report("C16")
            vcommon.run_harness(sub, [exe, "--seed", str(seed), "--tier", tier, "--shard", str(i), "--shards", str(shards),
                                      "--out", out, "--cli-dir", clidir],
                                timeout=3000 if tier == "thorough" else 420, env=env, out_json=out, what="c16 shard %d" % i)
            try:
                with open(out) as f:
                    return json.load(f), sub.inconclusive
            except Exception:
                return None, sub.inconclusive

        with concurrent.futures.ThreadPoolExecutor(shards) as ex:
            for data, inc in ex.map(shard, range(shards)):
                if data is not None:
                    rep.merge(data)
                else:
                    for i in inc:
                        rep.inconc(i.get("why"), i.get("count", 1))

        # ---- subprocess-level cross-check through the real CLI
        cases = []
        for i in range(shards):
            p = os.path.join(clidir, "cases-%d.json" % i)
            if os.path.exists(p):
                with open(p) as f:
                    cases += json.load(f)
        # keep every distinct panic signature once + a bounded seed-dependent sample of the rest
        rng = vcommon.Rng(seed ^ 0xC16)
        seen_sig = set()
        chosen = []
        rest = []
        for c in cases:
            if c.get("inproc") == "panic":
                key = (c.get("signature"), c["backend"])
                if key not in seen_sig and len(seen_sig) < (60 if tier == "thorough" else 24):
                    seen_sig.add(key)
                    chosen.append(c)
            else:
                rest.append(c)
        limit = 96 if tier == "thorough" else 32
        while rest and len(chosen) < limit + len(seen_sig):
            chosen.append(rest.pop(rng.below(len(rest))))
        cli_stats = {"cli_processes": 0, "cli_agree": 0, "cli_panic_confirmed": 0, "cli_disagree": 0}

        def one(kc):
            k, c = kc
            return c, _cli_check(c, scratch, k)

        with concurrent.futures.ThreadPoolExecutor(vcommon.NPROC) as ex:
            for c, res in ex.map(one, enumerate(chosen)):
                if res is None:
                    continue
                kind, rc, se = res
                cli_stats["cli_processes"] += 1
                if kind == "timeout":
                    rep.inconc("CLI cross-check: watchdog fired")
                    continue
                if kind == c["inproc"]:
                    cli_stats["cli_agree"] += 1
                    if kind == "panic":
                        cli_stats["cli_panic_confirmed"] += 1
                    continue
                cli_stats["cli_disagree"] += 1
                if kind == "panic" and not c.get("excluded"):
                    rep.violation(_sig_from_cli(c["backend"], se),
                                  "the CLI process died (rc=%s) although the in-process run of the same case ended %s: %s"
                                  % (rc, c["inproc"], se[-400:]), c)
                elif c["inproc"] == "panic":
                    rep.inconc("CLI cross-check: in-process panic but CLI rc=%s for %s/%s" % (rc, c["backend"], c["variant"]))
                else:
                    # Ok vs Err: the CLI additionally writes files and passes --out-dir to cpp/d; not a verdict on panics
                    cli_stats.setdefault("cli_ok_err_mismatch", 0)
                    cli_stats["cli_ok_err_mismatch"] += 1
        rep.extra.update(cli_stats)
        rep.evaluations += cli_stats["cli_processes"]
        rep.assumptions += [
            "exclusions: crates/test/src/<lang>.rs should_fail_verify, literal for corpus inputs, feature-tag translation for random worlds "
            "(rust/borrowed-duplicate is excluded as a whole variant on random worlds because the declared defect is not characterised)",
            "generators are built in the dev profile with the verification cfg; each generator instance is used once",
        ]
        t1 = os.times()
        rep.extra["children_cpu_s"] = round((t1.children_user - t0.children_user) + (t1.children_system - t0.children_system), 1)
        return rep
    finally:
        vcommon.rm_scratch(scratch)
