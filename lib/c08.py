"""C08 pipeline: the rsguest echo machine generated in several binding variants
per world (s = all sync, i = imports async, e = exports async, b = both,
m = random subset, w = WIT-declared `async func`s), linked with c08-host
(rsguest-host for values + rt-host for the async built-ins).

For every world the sync variant runs first and dumps its differences from the
reference host (`--dump`); every async variant is then judged against the
reference host *and* that dump (`--ref`): a difference the sync binding shows in
exactly the same way is not a C08 matter.  Arguments/results of call (function,
set k) are a pure function of the run seed, so all variants and platforms of a
world see the same values.

Platforms: native x86_64 debug (+ release in thorough), Miri on
armv7-unknown-linux-gnueabihf (32-bit pointers), valgrind memcheck (thorough).
The generated async glue computes its layouts from `size_of::<*const u8>()`
(checked in the generated text at every run: `wasm32_constants_in_async_glue`),
so 64-bit native runs are sound for handle-free worlds.
"""
import concurrent.futures
import json
import os
import re
import shutil
import time

import rsguest
import vcommon

SIG_INDIRECT_RECORD = "rust-async:export:indirect-param-record-never-freed"

TIERS = {
    # worlds, variants, native sets, miri jobs (world, variant), miri sets, valgrind worlds
    "quick": dict(worlds=6, variants="sieb", sets=12, release=False, miri=2, miri_sets=1, valgrind=0, valgrind_sets=0, wvariant_worlds=2),
    # (the builds dominate: ~5 crates per world; release profile for the first `release_worlds` worlds only)
    "thorough": dict(worlds=60, variants="siebmw", sets=12, release=True, release_worlds=10, miri=10, miri_sets=2, valgrind=8, valgrind_sets=3, wvariant_worlds=100),
}


def work_root():
    return os.path.join(vcommon.TARGET, "c08-work")


def cargo_env(extra=None):
    env = vcommon.base_env({"CARGO_TARGET_DIR": os.path.join(work_root(), "target")})
    if extra:
        env.update(extra)
    return env


def generate(seed, count, variants, wdir, replay=None):
    bindir = vcommon.cargo_build("rsguest", bins=["rsguest"])
    os.makedirs(wdir, exist_ok=True)
    cmd = [os.path.join(bindir, "rsguest"), "gen", "--seed", str(seed), "--count", str(count), "--out", wdir,
           "--crates", vcommon.CRATES, "--repo", vcommon.REPO, "--mode", "async", "--variants", variants]
    if replay:
        witfile = os.path.join(wdir, "replay.wit")
        with open(witfile, "w") as f:
            f.write(replay["wit"])
        cmd += ["--wit", witfile, "--opts", json.dumps(replay.get("opts") or {})]
    rc, out, err = vcommon.sh(cmd, timeout=900, env=vcommon.base_env())
    if rc != 0:
        raise vcommon.HarnessFailure("rsguest gen --mode async failed rc=%s: %s" % (rc, (err or out)[-3000:]))
    lock = os.path.join(wdir, "Cargo.lock")
    if not os.path.exists(lock):
        shutil.copy(os.path.join(vcommon.CRATES, "Cargo.lock"), lock)
    with open(os.path.join(wdir, "index.json")) as f:
        idx = json.load(f)
    # stale packages of an earlier run must not stay in the workspace dir (files of packages that are
    # generated again are only rewritten when they change, so an unchanged tree is not rebuilt)
    keep = {w.get("name") for w in idx["worlds"] if w.get("status") == "ok"}
    for d in os.listdir(wdir):
        if re.fullmatch(r"a\d+[a-z]", d) and d not in keep:
            shutil.rmtree(os.path.join(wdir, d), ignore_errors=True)
    return idx


def build(wdir, names, release=False, timeout=6000, packages=None):
    cmd = ["cargo", "build", "--offline", "--keep-going", "--message-format=short"]
    if packages is None:
        cmd.append("--workspace")
    else:
        for n in packages:
            cmd += ["-p", n]
        names = list(packages)
    if release:
        cmd.append("--release")
    rc, out, err = vcommon.sh(cmd, cwd=wdir, env=cargo_env(), timeout=timeout)
    failed = {}
    if rc is None:
        raise vcommon.HarnessFailure("cargo build of the async echo machines timed out")
    if rc != 0:
        lines = err.splitlines()
        for m in re.finditer(r"could not compile `([^`]+)`", err):
            pkg = m.group(1)
            if pkg in names:
                heads = [l for l in lines if l.startswith(pkg + "/") and "error" in l][:3]
                failed[pkg] = " || ".join(h[:300] for h in heads) or "compile error"
            else:
                raise vcommon.HarnessFailure("harness crate `%s` does not build:\n%s" % (pkg, err[-4000:]))
        if not failed:
            raise vcommon.HarnessFailure("cargo build failed:\n" + err[-4000:])
    bindir = os.path.join(work_root(), "target", "release" if release else "debug")
    res = {}
    for n in names:
        if n in failed:
            res[n] = failed[n]
        elif not os.path.exists(os.path.join(bindir, n)):
            res[n] = "binary missing after build"
        else:
            res[n] = None
    return res, bindir


def wasm32_constants(wdir, names):
    """Soundness guard for 64-bit native runs: the async import glue must derive
    its layouts from the pointer size.  Returns the crates in which some async
    import whose *result* contains a pointer pair (String / Vec) has an
    `abi_layout` written as plain numbers (none on the current tree: the
    generator prints `size_of::<*const u8>()` terms)."""
    bad = []
    for n in names:
        p = os.path.join(wdir, n, "src", "bindings.rs")
        try:
            with open(p) as f:
                txt = f.read()
        except OSError:
            continue
        for blk in txt.split("_Subtask for _MySubtask")[1:]:
            blk = blk.split("unsafe fn call_import")[0]
            m = re.search(r"type Results = ([^;]*);", blk)
            lay = re.search(r"from_size_align_unchecked\((.*)\)\s*\}", blk, re.S)
            if m and lay and re.search(r"String|Vec", m.group(1)) and "size_of" not in lay.group(1):
                bad.append(n)
                break
    return bad


def classify_crash(rc, stderr, platform):
    """Map a dead run to (kind, signature, what); the rsguest classifier does the
    work, signatures are rewritten into the C08 namespace."""
    ctx = rsguest.last_ctx(stderr)
    is_async = "plan" in ctx
    where = "%s `%s` set %s plan %s phase %s (world %s, %s)" % (ctx.get("dir"), ctx.get("func"), ctx.get("set"), ctx.get("plan"), ctx.get("phase"), ctx.get("world"), platform)
    m = re.search(r"RT-HOST-FATAL kind=(\S+) trap=([^\n]*)", stderr)
    if m:
        tm = re.search(r"Some\(\((\w+)", m.group(2))
        kind = tm.group(1) if tm else m.group(1)
        kind = re.sub(r"(?<!^)([A-Z])", r"-\1", kind).lower()
        return "violation", "rust-async:host-trap:%s" % kind, "the guest sat in a synchronous wait that the mock host could never answer (%s) during %s" % (m.group(2)[:300], where)
    pm = re.search(r"panicked at ([^\n:]+):(\d+):\d+:\n([^\n]*)", stderr)
    if pm and ("c08-host" in pm.group(1) or "rt-host" in pm.group(1)):
        return "inconclusive", None, "harness panic at %s: %s (%s)" % (pm.group(1), pm.group(3)[:200], where)
    if rc is not None and rc < 0 and is_async and "RSGUEST-" not in stderr and "panicked at" not in stderr:
        # the process died while the *host* followed guest memory at a moment the canonical ABI defines
        signame = {-11: "sigsegv", -6: "sigabrt", -7: "sigbus"}.get(rc, "signal%d" % -rc)
        ph = ctx.get("phase")
        if ph == "host-reads-params-at-start":
            return "violation", "rust-async:import:params-clobbered-before-start", "the process died with %s while the host read the lowered parameters when the callee started (%s)\n%s" % (signame, where, stderr[-600:])
        if ph == "host-writes-results-at-return":
            return "violation", "rust-async:mem:crash-%s:import:results-area-at-return" % signame, "the process died with %s while the host wrote the results when the callee returned (%s)\n%s" % (signame, where, stderr[-600:])
        if ph == "host-lifts-task-return":
            return "violation", "rust-async:mem:crash-%s:export:task-return-value" % signame, "the process died with %s while the host lifted the task.return value (%s)\n%s" % (signame, where, stderr[-600:])
    kind, sig, what = rsguest.classify_crash(rc, stderr, platform)
    if kind != "violation":
        return kind, sig, what
    if not is_async:
        # a crash inside a sync-bound call: C05/C06 territory
        return "other", sig, what
    d = ctx.get("dir", "?")
    if ctx.get("phase") == "host-reads-params-at-start" and (sig.startswith("rust-mem:use-after-free") or sig.startswith("rust-mem:oob") or sig.startswith("rust-mem:crash-") or sig.startswith("rust-mem:uninit")):
        return "violation", "rust-async:import:params-clobbered-before-start", "the host could not read the lowered parameters when the callee started: %s [%s]" % (what[:1500], where)
    if sig.startswith("rust-mem:"):
        parts = sig.split(":")
        k = {"use-after-free": "uaf"}.get(parts[1], parts[1])
        rest = ":".join(parts[2:])
        return "violation", "rust-async:mem:%s:%s" % (k, rest if rest.startswith(d) or rest.startswith("runtime") or rest.startswith("bindings") or rest.startswith("miri-exit") else d + ":" + rest), what + " [" + where + "]"
    if sig.startswith("rust-e2e:"):
        return "violation", "rust-async:" + sig[len("rust-e2e:"):], what + " [" + where + "]"
    return kind, sig, what


def absorb(rep, world, res, platform, timeout, sched_set, seqs):
    rc, err, data = res["rc"], res["err"], res["data"]
    wreplay = {"world": world["name"], "wit": world.get("wit"), "opts": world.get("opts"), "platform": platform, "seed": res.get("seed"), "sets": res.get("sets")}
    if data is not None:
        for h in data.get("extra", {}).get("schedule_hashes", []):
            sched_set.add(h)
        for s in data.get("extra", {}).get("callback_code_sequences", []):
            seqs.add(s)
        data.get("extra", {}).pop("schedule_hashes", None)
        data.get("extra", {}).pop("callback_code_sequences", None)
        fk = data.get("extra", {}).pop("functions_by_binding_kind", {})
        for smp in data.get("samples", []):
            smp["platform"] = platform
            smp["variant"] = world.get("variant")
        for v in data.get("violations", []):
            v.setdefault("replay", {})
            v["replay"].update({"platform": platform, "sets": res.get("sets"), "variant": world.get("variant")})
            v["what"] = "[%s, variant %s] %s" % (platform, world.get("variant"), v.get("what"))
        rep.merge(data)
        if platform.startswith("native-x86_64-debug"):
            tot = rep.extra.setdefault("functions_by_binding_kind", {})
            for k, v in fk.items():
                tot[k] = tot.get(k, 0) + v
    if rc == 0 and data is not None:
        return True
    if rc is None:
        rep.inconc("%s run: wall-clock watchdog fired after %ss" % (platform, timeout))
        return data is not None
    kind, sig, what = classify_crash(rc, err, platform)
    if kind == "violation" and "miri-exit" in (sig or "") and data is not None and any(
            ":mem:leak:" in v.get("signature", "") for v in data.get("violations", [])):
        return True  # the per-call balance check already reported this leak
    if kind == "violation":
        ctx = rsguest.last_ctx(err)
        wreplay.update({"call": ctx.get("call"), "func": ctx.get("func"), "set": ctx.get("set"), "plan": ctx.get("plan"), "stderr_tail": err[-1500:]})
        rep.violation(sig, "[%s, variant %s] %s [opts %s]" % (platform, world.get("variant"), what, json.dumps(world.get("opts"))), wreplay)
    elif kind == "other":
        rep.extra.setdefault("other_property_signatures", [])
        if sig not in rep.extra["other_property_signatures"]:
            rep.extra["other_property_signatures"].append(sig)
        rep.inconc("%s: a sync-bound call crashed (%s): the rest of that run was not observed" % (platform, sig))
    else:
        rep.inconc("%s: %s" % (platform, (what or "")[:400]))
    return data is not None


def run_pipeline(tier, seed, replay=None):
    P = dict(TIERS[tier])
    scale = float(os.environ.get("VERIF_THOROUGH_SCALE", "1") or 1)
    if tier == "thorough" and scale != 1:
        P["worlds"] = max(4, int(P["worlds"] * scale))
    rep = vcommon.Report("C08", level="exploration")
    wdir = os.path.join(work_root(), "async")
    t_start = time.time()
    os.makedirs(work_root(), exist_ok=True)
    with rsguest.Lock("c08-async"):
        if replay:
            idx = generate(seed, 1, "sx", wdir, replay=replay)
            plat = str(replay.get("platform", ""))
            P.update(miri=2 if plat.startswith("miri") else 0, valgrind=1 if plat.startswith("valgrind") else 0, release=plat.endswith("release"))
            if replay.get("sets"):
                P["sets"] = P["miri_sets"] = P["valgrind_sets"] = int(replay["sets"])
        else:
            idx = generate(seed, P["worlds"], P["variants"], wdir)
        entries = idx["worlds"]
        ok = [w for w in entries if w.get("status") == "ok"]
        for w in entries:
            if w.get("status") != "ok":
                rep.inconc("world %s: %s: %s" % (w.get("origin", w.get("name")), w.get("status"), str(w.get("error"))[:200]))
        for n in [n for w in ok for n in w.get("notes", [])][:5]:
            rep.inconc("glue generator note: %s" % n[:300])
        by_world = {}
        for w in ok:
            by_world.setdefault(w["world_index"], {})[w["variant"]] = w
        names = [w["name"] for w in ok]
        worlds = {w["name"]: w for w in ok}
        rep.extra["worlds_generated"] = len(by_world)
        rep.extra["crates_generated"] = len(ok)
        rep.extra["variants"] = {v: sum(1 for w in ok if w["variant"] == v) for v in sorted({w["variant"] for w in ok})}
        rep.extra["worlds_avoided_known_compile_defects"] = idx.get("avoided", {})
        cfgs = sorted({json.dumps({k: v for k, v in w["opts"].items() if k != "async"}, sort_keys=True) for w in ok})
        rep.extra["configurations_distinct"] = len(cfgs)
        rep.extra["configurations"] = cfgs[:6]
        t0 = time.time()
        dbg, dbgdir = build(wdir, names, release=False)
        rep.extra["build_debug_s"] = round(time.time() - t0, 1)
        rel, reldir = ({n: None for n in names}, None)
        rel_names = set()
        if P["release"]:
            t0 = time.time()
            rel_names = {w["name"] for w in ok if w["world_index"] < P.get("release_worlds", 10 ** 9)}
            r2, reldir = build(wdir, names, release=True, packages=sorted(rel_names))
            rel.update(r2)
            rep.extra["build_release_s"] = round(time.time() - t0, 1)
        compile_failures = []
        for n in names:
            if dbg[n] or rel[n]:
                compile_failures.append({"crate": n, "variant": worlds[n]["variant"], "opts": worlds[n]["opts"], "error": (dbg[n] or rel[n])[:600], "wit": worlds[n]["wit"][:3000]})
                rep.inconc("generated async echo machine does not compile (lead for C09, not a verdict here): %s" % re.sub(r"^\w+/src/", "", (dbg[n] or rel[n]))[:160])
        rep.extra["compile_failures"] = compile_failures[:8]
        rep.extra["compile_failure_count"] = len(compile_failures)
        runnable = [n for n in names if not dbg[n] and not rel[n]]
        bad_layout = wasm32_constants(wdir, [n for n in runnable if worlds[n]["variant"] != "s"])
        rep.extra["wasm32_constants_in_async_glue"] = bad_layout[:8]
        scratch = vcommon.scratch_dir("c08")
        sched_set, seqs = set(), set()
        plat_counts, plat_secs = {}, {}
        lock_results = []

        def run_seed(widx):
            return int(replay["seed"]) if replay and replay.get("seed") is not None else seed * 1000003 + 17 * widx + 1

        def one(name, platform, cmd, out, timeout, env=None, cwd=None, sets=None, rseed=None):
            r = rsguest.run_one(cmd, out, timeout, env=env, cwd=cwd)
            r["sets"] = sets
            r["seed"] = rseed
            return (name, platform, timeout, r)

        def world_job(widx):
            """sync reference first, then the async variants of the same world"""
            out = []
            vs = by_world[widx]
            s = vs.get("s")
            ref = None
            rs = run_seed(widx)
            native_bad = False
            if s and s["name"] in runnable:
                ref = os.path.join(scratch, "%s-ref.json" % s["name"])
                o = os.path.join(scratch, "%s-debug.json" % s["name"])
                cmd = [os.path.join(dbgdir, s["name"]), "--seed", str(rs), "--sets", str(P["sets"]), "--world", s["name"], "--out", o, "--dump", ref]
                out.append(one(s["name"], "native-x86_64-debug", cmd, o, 900, sets=P["sets"], rseed=rs))
                if not os.path.exists(ref):
                    ref = None
            for v, w in sorted(vs.items()):
                if v == "s" or w["name"] not in runnable:
                    continue
                if w["name"] in bad_layout:
                    native_bad = True
                    continue
                for prof, bdir in (("debug", dbgdir), ("release", reldir)):
                    if bdir is None or (prof == "release" and w["name"] not in rel_names):
                        continue
                    o = os.path.join(scratch, "%s-%s.json" % (w["name"], prof))
                    cmd = [os.path.join(bdir, w["name"]), "--seed", str(rs), "--sets", str(P["sets"]), "--world", w["name"], "--out", o]
                    if ref:
                        cmd += ["--ref", ref]
                    out.append(one(w["name"], "native-x86_64-" + prof, cmd, o, 900, sets=P["sets"], rseed=rs))
            return widx, ref, out, native_bad

        # Miri / valgrind shards need the reference dump of their world: they run after the native pass
        refs = {}
        with concurrent.futures.ThreadPoolExecutor(max_workers=max(4, min(vcommon.NPROC, 16))) as ex:
            for widx, ref, out, native_bad in ex.map(world_job, sorted(by_world)):
                refs[widx] = ref
                lock_results += out
                if native_bad:
                    rep.inconc("async glue with wasm32-hard-coded layout constants: native 64-bit run skipped for that crate")
        # Miri shard: the directed world (both directions async) always, then the smallest random worlds
        cands = []
        for widx in sorted(by_world):
            for v in ("b", "x", "w", "m", "i", "e"):
                w = by_world[widx].get(v)
                if w and w["name"] in runnable:
                    cands.append((0 if str(w.get("origin", "")).startswith("directed") else 1, w.get("counts", {}).get("bindings_bytes", 0), w["name"]))
                    break
        cands.sort()
        miri_names = [c[2] for c in cands][: P["miri"]]
        jobs = []
        menv = cargo_env({"MIRIFLAGS": rsguest.MIRIFLAGS})
        for n in miri_names:
            widx = worlds[n]["world_index"]
            o = os.path.join(scratch, "%s-miri.json" % n)
            cmd = ["cargo", "+nightly", "miri", "run", "--offline", "-q", "-p", n, "--target", rsguest.MIRI_TARGET, "--",
                   "--seed", str(run_seed(widx)), "--sets", str(P["miri_sets"]), "--world", n, "--out", o]
            if refs.get(widx):
                cmd += ["--ref", refs[widx]]
            jobs.append((n, "miri-" + rsguest.MIRI_TARGET, cmd, o, 1500 if tier == "quick" else 3600, menv, wdir, P["miri_sets"], run_seed(widx)))
        if P["valgrind"] and shutil.which("valgrind"):
            vg = [c[2] for c in cands][: P["valgrind"]]
            for n in vg:
                widx = worlds[n]["world_index"]
                o = os.path.join(scratch, "%s-vg.json" % n)
                log = os.path.join(scratch, "%s-vg.log" % n)
                cmd = ["valgrind", "--tool=memcheck", "--leak-check=full", "--show-leak-kinds=definite,indirect", "--errors-for-leak-kinds=definite,indirect",
                       "--error-exitcode=0", "--log-file=" + log, os.path.join(reldir if (reldir and n in rel_names) else dbgdir, n), "--seed", str(run_seed(widx)),
                       "--sets", str(P["valgrind_sets"]), "--world", n, "--out", o]
                if refs.get(widx):
                    cmd += ["--ref", refs[widx]]
                jobs.append((n, "valgrind", cmd, o, 3000, None, None, P["valgrind_sets"], run_seed(widx)))
        with concurrent.futures.ThreadPoolExecutor(max_workers=max(4, min(vcommon.NPROC, 16))) as ex:
            futs = [ex.submit(one, j[0], j[1], j[2], j[3], j[4], j[5], j[6], j[7], j[8]) for j in jobs]
            for f in futs:
                lock_results.append(f.result())
        for name, platform, timeout, res in lock_results:
            got = absorb(rep, worlds[name], res, platform, timeout, sched_set, seqs)
            if got:
                plat_counts[platform] = plat_counts.get(platform, 0) + 1
            plat_secs[platform] = round(plat_secs.get(platform, 0) + res["secs"], 1)
            if platform == "valgrind":
                log = os.path.join(scratch, "%s-vg.log" % name)
                if os.path.exists(log):
                    with open(log, errors="replace") as f:
                        txt = f.read()
                    for kind, fk, text in rsguest.valgrind_findings(txt):
                        if fk == "unknown-frame":
                            rep.inconc("valgrind report without a generated/runtime frame: %s" % text[:200])
                            continue
                        k = {"oob": "uaf-or-oob"}.get(kind, kind)
                        rep.violation("rust-async:mem:%s:%s" % (k, fk), "[valgrind, variant %s] %s\n%s [opts %s]" % (worlds[name]["variant"], kind, text, json.dumps(worlds[name]["opts"])),
                                      {"world": name, "wit": worlds[name]["wit"], "opts": worlds[name]["opts"], "platform": "valgrind", "seed": res.get("seed"), "sets": res.get("sets")})
        if not rep.samples and ok:
            w0 = ok[0]
            rep.samples.append({"world": w0["name"], "origin": w0.get("origin"), "opts": w0.get("opts"), "wit": w0.get("wit", "")[:1500]})
        merged = {}
        for i in rep.inconclusive:
            why = re.sub(r"^(native-x86_64-(debug|release)|miri-\S+|valgrind): ", "", str(i.get("why")))
            merged[why] = merged.get(why, 0) + int(i.get("count", 1))
        rep.inconclusive = [{"why": k, "count": v} for k, v in merged.items()]
        rep.extra["distinct_schedules"] = len(sched_set)
        rep.extra["callback_code_sequences"] = sorted(seqs)[:40]
        rep.extra["runs_by_platform"] = plat_counts
        rep.extra["run_seconds_by_platform"] = plat_secs
        rep.extra["miri_crates"] = miri_names
        rep.extra["pipeline_s"] = round(time.time() - t_start, 1)
        vcommon.rm_scratch(scratch)
    return rep
