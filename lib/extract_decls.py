"""Per-backend declaration extractors for C13.

Each extractor reads the text a wit-bindgen backend generated and returns
  {"imports": [{"module", "name", "params", "results", "at"}...],
   "exports": [{"name", "params", "results", "at"}...],
   "unread": n, "unreferenced": n}
`params`/`results` are lists of core types ("i32" "i64" "f32" "f64") or None when
the extractor could not read the signature (then only the name is judged)."""
import glob
import json
import os
import re


def _files(root, pattern):
    return sorted(glob.glob(os.path.join(root, "**", pattern), recursive=True))


def _read(p):
    with open(p, errors="replace") as f:
        return f.read()


def _split_args(args):
    """Split a parameter list at top-level commas."""
    out, depth, cur = [], 0, ""
    for ch in args:
        if ch in "(<[{":
            depth += 1
        elif ch in ")>]}":
            depth -= 1
        if ch == "," and depth == 0:
            out.append(cur)
            cur = ""
        else:
            cur += ch
    if cur.strip():
        out.append(cur)
    return [a.strip() for a in out if a.strip()]


def _match_paren(text, i):
    """text[i] == '(' -> index of the matching ')'."""
    depth = 0
    for j in range(i, len(text)):
        if text[j] == "(":
            depth += 1
        elif text[j] == ")":
            depth -= 1
            if depth == 0:
                return j
    return -1


def _sig(params, results):
    if params is None or results is None or any(p is None for p in params) or any(r is None for r in results):
        return None, None
    return params, results


# ------------------------------------------------------------------ C / C++

_C_TY = {
    "int32_t": "i32", "uint32_t": "i32", "int": "i32", "unsigned": "i32", "bool": "i32", "uint8_t": "i32", "int8_t": "i32",
    "uint16_t": "i32", "int16_t": "i32", "size_t": "i32", "uintptr_t": "i32", "intptr_t": "i32", "char32_t": "i32",
    "int64_t": "i64", "uint64_t": "i64", "float": "f32", "double": "f64",
}


def _c_type(t):
    t = t.strip()
    if not t or t == "void":
        return "void"
    if "*" in t:
        return "i32"
    words = re.findall(r"[A-Za-z_]\w*", t)
    for w in words:
        if w in ("const", "extern", "static", "struct", "volatile", "unsigned", "signed") and len(words) > 1:
            continue
        return _C_TY.get(w)
    return None


def _c_params(args):
    args = args.strip()
    if args in ("", "void"):
        return []
    out = []
    for a in _split_args(args):
        if "*" in a:
            out.append("i32")
            continue
        words = re.findall(r"[A-Za-z_]\w*", a)
        # `type` or `type name`
        ty = None
        for w in words:
            if w in ("const", "volatile", "struct"):
                continue
            ty = _C_TY.get(w)
            break
        out.append(ty)
    return out


def _c_proto(text, start):
    """Parse `<ret> <name>(<args>)` starting at text[start:]; returns (ret, name, args, end)."""
    m = re.compile(r"\s*(?:extern\s+(?:\"C\"\s+)?)?([A-Za-z_][\w\s\*]*?[\s\*])([A-Za-z_]\w*)\s*\(", re.S).match(text, start)
    if not m:
        return None
    close = _match_paren(text, m.end() - 1)
    if close < 0:
        return None
    return m.group(1), m.group(2), text[m.end():close], close


def extract_c_family(root, exts):
    imports, exports, unread = [], [], 0
    for ext in exts:
        for p in _files(root, "*" + ext):
            text = _read(p)
            base = os.path.basename(p)
            for m in re.finditer(r"_*import_module_*\(\"((?:[^\"\\]|\\.)*)\"\)", text):
                m2 = re.compile(r"[\s,)]*(?:__attribute__\(\()?\s*_*import_name_*\(\"((?:[^\"\\]|\\.)*)\"\)\)*").match(text, m.end())
                if not m2:
                    continue
                line = text.count("\n", 0, m.start()) + 1
                pr = _c_proto(text, m2.end())
                d = {"module": m.group(1), "name": m2.group(1), "at": "%s:%d" % (base, line), "params": None, "results": None}
                if pr:
                    ret, name, args, _ = pr
                    r = _c_type(ret.replace("extern", " "))
                    d["params"], d["results"] = _sig(_c_params(args), [] if r == "void" else [r])
                    d["ident"] = name
                if d["params"] is None:
                    unread += 1
                imports.append(d)
            for m in re.finditer(r"_*export_name_*\(\"((?:[^\"\\]|\\.)*)\"\)\)*", text):
                line = text.count("\n", 0, m.start()) + 1
                pr = _c_proto(text, m.end())
                d = {"name": m.group(1), "at": "%s:%d" % (base, line), "params": None, "results": None}
                if pr:
                    ret, name, args, _ = pr
                    r = _c_type(ret)
                    d["params"], d["results"] = _sig(_c_params(args), [] if r == "void" else [r])
                    d["ident"] = name
                if d["params"] is None:
                    unread += 1
                exports.append(d)
    return {"imports": imports, "exports": exports, "unread": unread, "unreferenced": 0}


def extract_c(root):
    return extract_c_family(root, [".c"])


def extract_cpp(root):
    return extract_c_family(root, [".cpp"])


# ------------------------------------------------------------------ Rust

_RS_TY = {"i32": "i32", "u32": "i32", "usize": "i32", "isize": "i32", "u8": "i32", "i8": "i32", "u16": "i32", "i16": "i32", "bool": "i32",
          "char": "i32", "i64": "i64", "u64": "i64", "f32": "f32", "f64": "f64"}


def _rs_type(t):
    t = t.strip()
    if t.startswith("*"):
        return "i32"
    return _RS_TY.get(t)


def _rs_fn(text, start):
    m = re.compile(r"\s*(?:pub\s+)?(?:unsafe\s+)?(?:extern\s+\"C\"\s+)?fn\s+([A-Za-z_]\w*)\s*\(", re.S).match(text, start)
    if not m:
        return None
    close = _match_paren(text, m.end() - 1)
    if close < 0:
        return None
    args = text[m.end():close]
    m2 = re.compile(r"\s*(?:->\s*([^;{]+?))?\s*[;{]", re.S).match(text, close + 1)
    if not m2:
        return None
    params = []
    for a in _split_args(args):
        if ":" not in a:
            params.append(None)
        else:
            params.append(_rs_type(a.split(":", 1)[1]))
    ret = m2.group(1)
    results = [] if not ret or ret.strip() == "()" else [_rs_type(ret)]
    return m.group(1), params, results


def extract_rust(root):
    imports, exports, unread = [], [], 0
    for p in _files(root, "*.rs"):
        text = _read(p)
        base = os.path.basename(p)
        mods = [(m.start(), m.group(1)) for m in re.finditer(r"wasm_import_module\s*=\s*\"((?:[^\"\\]|\\.)*)\"", text)]
        for m in re.finditer(r"#\[link_name\s*=\s*\"((?:[^\"\\]|\\.)*)\"\]", text):
            module = None
            for pos, name in mods:
                if pos < m.start():
                    module = name
            if module is None:
                continue
            line = text.count("\n", 0, m.start()) + 1
            d = {"module": module, "name": m.group(1), "at": "%s:%d" % (base, line), "params": None, "results": None}
            fn = _rs_fn(text, m.end())
            if fn:
                d["ident"] = fn[0]
                d["params"], d["results"] = _sig(fn[1], fn[2])
            if d["params"] is None:
                unread += 1
            imports.append(d)
        for m in re.finditer(r"#\[(?:unsafe\()?export_name\s*=\s*\"((?:[^\"\\]|\\.)*)\"\)?\]", text):
            line = text.count("\n", 0, m.start()) + 1
            d = {"name": m.group(1), "at": "%s:%d" % (base, line), "params": None, "results": None}
            fn = _rs_fn(text, m.end())
            if fn:
                d["ident"] = fn[0]
                d["params"], d["results"] = _sig(fn[1], fn[2])
            if d["params"] is None:
                unread += 1
            exports.append(d)
    return {"imports": imports, "exports": exports, "unread": unread, "unreferenced": 0}


# ------------------------------------------------------------------ C#

_CS_TY = {"int": "i32", "uint": "i32", "nint": "i32", "nuint": "i32", "IntPtr": "i32", "UIntPtr": "i32", "byte": "i32", "sbyte": "i32",
          "short": "i32", "ushort": "i32", "bool": "i32", "char": "i32", "long": "i64", "ulong": "i64", "float": "f32", "double": "f64"}


def _cs_type(t):
    t = t.strip()
    if t.endswith("*"):
        return "i32"
    t = t.split(".")[-1]
    return _CS_TY.get(t)


def _cs_method(text, start):
    m = re.compile(r"[^\]]*\]\s*((?:(?:public|internal|private|protected|static|unsafe|extern)\s+)+)([\w\.\*<>]+)\s+([A-Za-z_]\w*)\s*\(", re.S).match(text, start)
    if not m:
        return None
    close = _match_paren(text, m.end() - 1)
    if close < 0:
        return None
    params = []
    for a in _split_args(text[m.end():close]):
        parts = a.rsplit(None, 1)
        params.append(_cs_type(parts[0]) if len(parts) == 2 else None)
    ret = m.group(2)
    results = [] if ret == "void" else [_cs_type(ret)]
    return m.group(3), params, results


def extract_csharp(root):
    imports, exports, unread, unreferenced = [], [], 0, 0
    texts = {p: _read(p) for p in _files(root, "*.cs")}
    alltext = "\n".join(texts.values())
    decl_counts = {}
    found = []
    for p, text in texts.items():
        base = os.path.basename(p)
        for m in re.finditer(r"DllImport(?:Attribute)?\(\"((?:[^\"\\]|\\.)*)\",\s*EntryPoint\s*=\s*\"((?:[^\"\\]|\\.)*)\"\)", text):
            line = text.count("\n", 0, m.start()) + 1
            d = {"module": m.group(1), "name": m.group(2), "at": "%s:%d" % (base, line), "params": None, "results": None}
            meth = _cs_method(text, m.end())
            if meth:
                d["ident"] = meth[0]
                d["params"], d["results"] = _sig(meth[1], meth[2])
                decl_counts[meth[0]] = decl_counts.get(meth[0], 0) + 1
            found.append(d)
        for m in re.finditer(r"UnmanagedCallersOnly(?:Attribute)?\(EntryPoint\s*=\s*\"((?:[^\"\\]|\\.)*)\"\)", text):
            line = text.count("\n", 0, m.start()) + 1
            d = {"name": m.group(1), "at": "%s:%d" % (base, line), "params": None, "results": None}
            meth = _cs_method(text, m.end())
            if meth:
                d["ident"] = meth[0]
                d["params"], d["results"] = _sig(meth[1], meth[2])
            if d["params"] is None:
                unread += 1
            exports.append(d)
    for d in found:
        ident = d.get("ident")
        if ident:
            uses = len(re.findall(r"\b%s\b" % re.escape(ident), alltext))
            if uses <= decl_counts.get(ident, 1):
                # declared but never called: the .NET linker trims it ("actually references")
                unreferenced += 1
                continue
        if d["params"] is None:
            unread += 1
        imports.append(d)
    return {"imports": imports, "exports": exports, "unread": unread, "unreferenced": unreferenced}


# ------------------------------------------------------------------ Go

_GO_TY = {"int32": "i32", "uint32": "i32", "uintptr": "i32", "unsafe.Pointer": "i32", "int64": "i64", "uint64": "i64",
          "float32": "f32", "float64": "f64"}


def _go_func(text, start):
    m = re.compile(r"\s*func\s+([A-Za-z_]\w*)\s*\(").match(text, start)
    if not m:
        return None
    close = _match_paren(text, m.end() - 1)
    if close < 0:
        return None
    params = []
    pending = 0
    for a in _split_args(text[m.end():close]):
        parts = a.split()
        if len(parts) == 1:
            pending += 1  # `a, b int32` style
            continue
        ty = _GO_TY.get(parts[-1])
        params += [ty] * (pending + 1)
        pending = 0
    if pending:
        params += [None] * pending
    rest = text[close + 1:text.find("\n", close) if text.find("\n", close) >= 0 else len(text)]
    rest = rest.split("{")[0].strip()
    results = [] if not rest else [_GO_TY.get(rest)]
    return m.group(1), params, results


def extract_go(root):
    imports, exports, unread = [], [], 0
    for p in _files(root, "*.go"):
        text = _read(p)
        base = os.path.relpath(p, root)
        for m in re.finditer(r"^//go:wasmimport (\S+) (.+)$", text, re.M):
            line = text.count("\n", 0, m.start()) + 1
            d = {"module": m.group(1), "name": m.group(2).rstrip(), "at": "%s:%d" % (base, line), "params": None, "results": None}
            fn = _go_func(text, m.end())
            if fn:
                d["ident"] = fn[0]
                d["params"], d["results"] = _sig(fn[1], fn[2])
            if d["params"] is None:
                unread += 1
            imports.append(d)
        for m in re.finditer(r"^//go:wasmexport (.+)$", text, re.M):
            line = text.count("\n", 0, m.start()) + 1
            d = {"name": m.group(1).rstrip(), "at": "%s:%d" % (base, line), "params": None, "results": None}
            fn = _go_func(text, m.end())
            if fn:
                d["ident"] = fn[0]
                d["params"], d["results"] = _sig(fn[1], fn[2])
            if d["params"] is None:
                unread += 1
            exports.append(d)
    return {"imports": imports, "exports": exports, "unread": unread, "unreferenced": 0}


# ------------------------------------------------------------------ MoonBit

_MBT_TY = {"Int": "i32", "UInt": "i32", "Int64": "i64", "UInt64": "i64", "Float": "f32", "Double": "f64", "Bool": "i32", "Byte": "i32"}


def _mbt_sig(args, ret):
    params = []
    for a in _split_args(args):
        if ":" not in a:
            params.append(None)
        else:
            params.append(_MBT_TY.get(a.split(":", 1)[1].strip()))
    ret = (ret or "").strip()
    results = [] if ret in ("", "Unit") else [_MBT_TY.get(ret)]
    return _sig(params, results)


def extract_moonbit(root):
    imports, exports, unread = [], [], 0
    fns = {}
    for p in _files(root, "*.mbt"):
        text = _read(p)
        base = os.path.relpath(p, root)
        for m in re.finditer(r"^(?:pub\s+)?(?:extern\s+\"wasm\"\s+)?fn\s+([A-Za-z_]\w*)\s*\(([^)]*)\)\s*(?:->\s*([\w\[\]]+))?\s*=\s*\"((?:[^\"\\]|\\.)*)\"\s*\"((?:[^\"\\]|\\.)*)\"", text, re.M):
            line = text.count("\n", 0, m.start()) + 1
            d = {"module": m.group(4), "name": m.group(5), "at": "%s:%d" % (base, line), "ident": m.group(1)}
            d["params"], d["results"] = _mbt_sig(m.group(2), m.group(3))
            if d["params"] is None:
                unread += 1
            imports.append(d)
        for m in re.finditer(r"^pub\s+fn\s+([A-Za-z_]\w*)\s*\(([^)]*)\)\s*(?:->\s*([\w\[\]]+))?\s*\{", text, re.M):
            fns.setdefault(m.group(1), (m.group(2), m.group(3), "%s:%d" % (base, text.count("\n", 0, m.start()) + 1)))
    for p in _files(root, "moon.pkg.json"):
        try:
            pkg = json.loads(_read(p))
        except ValueError:
            continue
        ex = (((pkg.get("link") or {}).get("wasm") or {}).get("exports")) or []
        for e in ex:
            if ":" not in e:
                fn, name = e, e
            else:
                fn, name = e.split(":", 1)
            d = {"name": name, "at": os.path.relpath(p, root), "ident": fn, "params": None, "results": None}
            if fn in fns:
                d["params"], d["results"] = _mbt_sig(fns[fn][0], fns[fn][1])
                d["at"] = fns[fn][2]
            if d["params"] is None:
                unread += 1
            exports.append(d)
    return {"imports": imports, "exports": exports, "unread": unread, "unreferenced": 0}


# ------------------------------------------------------------------ D

_D_TY = {"uint": "i32", "int": "i32", "size_t": "i32", "ptrdiff_t": "i32", "bool": "i32", "ubyte": "i32", "byte": "i32", "ushort": "i32",
         "short": "i32", "dchar": "i32", "ulong": "i64", "long": "i64", "float": "f32", "double": "f64"}


def _d_type(t):
    t = t.strip()
    if t.endswith("*"):
        return "i32"
    return _D_TY.get(t)


def _d_func(text, start):
    m = re.compile(r"(?:\s*pragma\(mangle,[^\n]*\)\s*)?\s*(?:(?:static|private|public|package|export|extern\(C\))\s+)*([\w\*]+)\s+([A-Za-z_]\w*)\s*\(", re.S).match(text, start)
    if not m:
        return None
    close = _match_paren(text, m.end() - 1)
    if close < 0:
        return None
    params = []
    for a in _split_args(text[m.end():close]):
        parts = a.split()
        params.append(_d_type(parts[0]) if parts else None)
    ret = m.group(1)
    results = [] if ret == "void" else [_d_type(ret)]
    return m.group(2), params, results


def extract_d(root):
    imports, exports, unread = [], [], 0
    for p in _files(root, "*.d"):
        text = _read(p)
        base = os.path.relpath(p, root)
        for m in re.finditer(r"@wasmImport!\(\"((?:[^\"\\]|\\.)*)\",\s*\"((?:[^\"\\]|\\.)*)\"\)", text):
            line = text.count("\n", 0, m.start()) + 1
            d = {"module": m.group(1), "name": m.group(2), "at": "%s:%d" % (base, line), "params": None, "results": None}
            fn = _d_func(text, m.end())
            if fn:
                d["ident"] = fn[0]
                d["params"], d["results"] = _sig(fn[1], fn[2])
            if d["params"] is None:
                unread += 1
            imports.append(d)
        for m in re.finditer(r"@wasmExport!\(\"((?:[^\"\\]|\\.)*)\"\)", text):
            line = text.count("\n", 0, m.start()) + 1
            d = {"name": m.group(1), "at": "%s:%d" % (base, line), "params": None, "results": None}
            fn = _d_func(text, m.end())
            if fn:
                d["ident"] = fn[0]
                d["params"], d["results"] = _sig(fn[1], fn[2])
            if d["params"] is None:
                unread += 1
            exports.append(d)
    return {"imports": imports, "exports": exports, "unread": unread, "unreferenced": 0}


EXTRACTORS = {
    "c": extract_c,
    "cpp": extract_cpp,
    "rust": extract_rust,
    "csharp": extract_csharp,
    "go": extract_go,
    "moonbit": extract_moonbit,
    "d": extract_d,
}


def shape(name):
    """World-independent shape of a core name: its `[tag]` prefixes, `cabi_post_`
    and `#[tag]` parts with indices elided."""
    parts = re.findall(r"cabi_post_|#?\[[a-z0-9+-]+?\]", name)
    parts = [re.sub(r"-\d+\]", "-N]", p) for p in parts]
    return "".join(parts) or "plain"
