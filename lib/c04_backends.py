"""C04 part (3): the `perform_cast` / Bitcast expression strings of every backend,
evaluated against the canonical ABI's slot coercions.

`run_backend_casts(rep, tier, seed)` merges into the given vcommon.Report:
evaluations, distinct cases, violations (signatures `cast:<backend>:<BitcastKind>`,
`cast:<backend>:<Up>+<Down>:round-trip`), inconclusive entries and coverage
extras (prefixed `backend_casts_`).

Engine: crates/exprsem, `c14 --mode casts`.  Every backend is run in-process
under hook H4 on variant-heavy worlds (witgen boundary corpus "variants" + a
world built to produce every Bitcast kind `abi::cast` can return for wasm32);
Rust / C / C++ strings are compiled (rustc debug+release; clang / g++ with
`-fsanitize=undefined -fno-sanitize-recover=all`) and executed, C# / Go /
MoonBit / D strings are evaluated by the exprsem typed interpreters.  Oracle:
`cabi_ref::Abi::coerce_into_slot` / `coerce_from_slot` (f32->i32 and f64->i64
reinterpret, i32->i64 zero-extend, f32->i64 reinterpret then zero-extend, i64->i32
wrap, i64->f32 wrap then reinterpret); Pointer/Length behave as i32 and
PointerOrI64 as i64 (wasm32; native runs judge pointer results modulo 2^32).
Each backend's own into-slot / out-of-slot pair must round-trip bit-exactly.

Reading of "zero-extend" used here (weakest falsifiable one): a 32->64 bit
into-slot cast is accepted when the low half is exact and the high half is all
zeros or the sign fill — every conforming peer applies `wrap_i64_to_i32` on the way
out, so the two are observationally equivalent; which one each backend produces is
recorded in coverage (`backend_casts_slot_high_bits`).  Set
VERIF_C04_STRICT_ZEXT=1 to turn sign extension into a violation
(`cast:<backend>:<Kind>:sign-extends`)."""
import os
import sys

sys.path.insert(0, os.path.dirname(os.path.abspath(__file__)))
import vcommon  # noqa: E402

#: minimum (evaluations, distinct cases) this part should contribute
FLOORS = {"quick": (100_000_000, 120), "thorough": (20_000_000_000, 120)}

ASSUMPTION = ("C04 part 3: C#, Go, MoonBit and D cast expressions are judged through exprsem's model of those languages "
              "(rules listed in coverage.backend_casts_trusted_base); Rust/C/C++ are compiled natively with 64-bit pointers")


def run_backend_casts(rep, tier, seed, replay=None):
    """Run the backend cast evaluation and merge it into `rep` (a vcommon.Report)."""
    from checks import C14 as c14
    sub = vcommon.Report(rep.prop)
    if replay is not None and not str(replay.get("signature", "")).startswith("cast:"):
        replay = None
    c14.run_mode(sub, "casts", tier, seed, replay, "c04b")
    rep.evaluations += sub.evaluations
    rep.distinct |= set("backend-cast:" + d for d in sub.distinct)
    for s in sub.samples[:4]:
        if len(rep.samples) < 12:
            rep.samples.append(s)
    rep.violations += sub.violations
    for i in sub.inconclusive:
        rep.inconc(i.get("why"), i.get("count", 1))
    if ASSUMPTION not in rep.assumptions:
        rep.assumptions.append(ASSUMPTION)
    for k, v in sub.extra.items():
        if k == "cases":
            v = [c for c in v if not c.get("case", "").split("|")[0].endswith(":opnd0")][:400]
        rep.extra["backend_casts_" + k] = v
    rep.extra["backend_casts_evaluations"] = sub.evaluations
    rep.extra["backend_casts_distinct"] = len(sub.distinct)
    return sub
