"""Orchestration of the rsguest echo machine (C05 / C06 / C07 and, later, C08).

generate (crates/rsguest, links the working-tree Rust generator) -> one cargo
scratch workspace under <TARGET>/rsguest-work/<mode> whose packages share one
target dir -> native debug / release runs, Miri runs (32-bit ARM: 32-bit
pointers *and* 8-byte aligned u64/f64 like wasm32; i686 aligns them to 4),
valgrind runs -> merged vcommon.Report.

Every run executes both monitors (value equalities = C05, heap monitors = C06);
a check keeps the violations whose signature starts with its own prefix and
lists the others under coverage.other_property_signatures.
"""
import concurrent.futures
import fcntl
import json
import os
import re
import shutil
import time

import vcommon

MIRI_TARGET = "armv7-unknown-linux-gnueabihf"
MIRIFLAGS = "-Zmiri-disable-isolation -Zmiri-disable-stacked-borrows -Zmiri-permissive-provenance"
# Known generator defect (known_findings.json): fixed-length list with heap elements in an import
# parameter lowered to memory; its elements are dropped before the import is called.
SIG_FIXED_LIST_UAF = "rust-mem:use-after-free:import:fixed-list-with-heap-elements-lowered-to-memory"
# ... and an export result containing such a list is not cleaned up by post-return (reported by the host's balance check)
SIG_FIXED_LIST_LEAK = "rust-mem:leak:export:fixed-list-with-heap-elements-in-result:not-freed-by-post-return"

TIERS = {
    # worlds, native value sets per profile, miri worlds, miri sets, valgrind worlds, big-list size
    "values": {
        "quick": dict(worlds=16, sets=15, miri_worlds=4, miri_sets=2, valgrind_worlds=0, valgrind_sets=0, big=100000),
        "thorough": dict(worlds=144, sets=100, miri_worlds=16, miri_sets=3, valgrind_worlds=12, valgrind_sets=4, big=100000),
    },
    "resources": {
        "quick": dict(worlds=8, sets=50, miri_worlds=3, miri_sets=2, valgrind_worlds=0, valgrind_sets=0, big=0),
        "thorough": dict(worlds=96, sets=300, miri_worlds=16, miri_sets=6, valgrind_worlds=8, valgrind_sets=20, big=0),
    },
}


def work_root():
    return os.path.join(vcommon.TARGET, "rsguest-work")


class Lock:
    """One rsguest pipeline per mode at a time (C05 and C06 share the work dir)."""

    def __init__(self, mode):
        os.makedirs(work_root(), exist_ok=True)
        self.path = os.path.join(work_root(), mode + ".lock")

    def __enter__(self):
        self.f = open(self.path, "w")
        fcntl.flock(self.f, fcntl.LOCK_EX)
        return self

    def __exit__(self, *a):
        fcntl.flock(self.f, fcntl.LOCK_UN)
        self.f.close()


def cargo_env(extra=None):
    env = vcommon.base_env({"CARGO_TARGET_DIR": os.path.join(work_root(), "target")})
    if extra:
        env.update(extra)
    return env


def generate(mode, seed, count, wdir, replay=None):
    """Run the generator; returns the parsed index.json."""
    bindir = vcommon.cargo_build("rsguest", bins=["rsguest"])
    os.makedirs(wdir, exist_ok=True)
    # stale packages from an earlier (larger) run must not stay in the workspace dir
    for d in os.listdir(wdir):
        if re.fullmatch(r"[a-z]\d+", d):
            shutil.rmtree(os.path.join(wdir, d), ignore_errors=True) if int(d[1:]) >= count else None
    cmd = [os.path.join(bindir, "rsguest"), "gen", "--seed", str(seed), "--count", str(count), "--out", wdir,
           "--crates", vcommon.CRATES, "--repo", vcommon.REPO, "--mode", mode, "--prefix", mode[0]]
    if replay:
        witfile = os.path.join(wdir, "replay.wit")
        with open(witfile, "w") as f:
            f.write(replay["wit"])
        cmd += ["--wit", witfile, "--opts", json.dumps(replay.get("opts") or {})]
    rc, out, err = vcommon.sh(cmd, timeout=600, env=vcommon.base_env())
    if rc != 0:
        raise vcommon.HarnessFailure("rsguest gen failed rc=%s: %s" % (rc, (err or out)[-3000:]))
    lock = os.path.join(wdir, "Cargo.lock")
    if not os.path.exists(lock):
        shutil.copy(os.path.join(vcommon.CRATES, "Cargo.lock"), lock)
    with open(os.path.join(wdir, "index.json")) as f:
        return json.load(f)


def build(wdir, names, release=False, timeout=3000):
    """cargo build --keep-going; returns {name: None | error head}."""
    cmd = ["cargo", "build", "--offline", "--workspace", "--keep-going", "--message-format=short"]
    if release:
        cmd.append("--release")
    rc, out, err = vcommon.sh(cmd, cwd=wdir, env=cargo_env(), timeout=timeout)
    failed = {}
    if rc is None:
        raise vcommon.HarnessFailure("cargo build of the echo machines timed out")
    if rc != 0:
        lines = err.splitlines()
        for m in re.finditer(r"could not compile `([^`]+)`", err):
            pkg = m.group(1)
            if pkg in names:
                heads = [l for l in lines if l.startswith(pkg + "/") and "error" in l][:3]
                failed[pkg] = " || ".join(h[:300] for h in heads) or "compile error"
            else:
                raise vcommon.HarnessFailure("harness crate `%s` does not build:\n%s" % (pkg, err[-4000:]))
        if not failed:
            raise vcommon.HarnessFailure("cargo build failed:\n" + err[-4000:])
    bindir = os.path.join(work_root(), "target", "release" if release else "debug")
    res = {}
    for n in names:
        if n in failed:
            res[n] = failed[n]
        elif not os.path.exists(os.path.join(bindir, n)):
            res[n] = "binary missing after build"
        else:
            res[n] = None
    return res, bindir


CTX_RE = re.compile(r"^CTX (\{.*\})\s*$", re.M)


def last_ctx(stderr):
    ctx = {}
    for m in CTX_RE.finditer(stderr):
        try:
            ctx = json.loads(m.group(1))
        except ValueError:
            pass
    return ctx


def frame_kind(stderr):
    """First frame of a Miri / valgrind backtrace that is generated code or the
    guest runtime, reduced to its *kind* (names of generated items are
    world-specific)."""
    for m in re.finditer(r"(?:\d+: |by 0x[0-9A-F]+: |at 0x[0-9A-F]+: )([^\n]+)", stderr):
        f = m.group(1).strip()
        if "rsguest_support" in f or "rsguest_host" in f or "__rust_dealloc" in f or "__rust_alloc" in f or f.startswith("std::") or f.startswith("core::") or f.startswith("alloc::") or f.startswith("<alloc::") or f.startswith("<core::"):
            continue
        if "wit_bindgen::rt" in f or "wit_bindgen::" in f:
            f = re.sub(r"<.*?>", "<..>", f)
            return "runtime:" + f.split("(")[0].strip()[:60]
        if "bindings::" in f:
            if "_rt::" in f:
                return "bindings:_rt::" + f.split("_rt::")[1].split("::<")[0].split("(")[0].strip()[:40]
            if "__post_return_" in f:
                return "bindings:post-return"
            if "_export_" in f and "_cabi" in f:
                return "bindings:export-cabi"
            if "verif_glue::drive_" in f or "verif_glue::g" in f or "verif_glue::imp_" in f or "verif_glue::call_exp" in f:
                continue
            if "verif_glue" in f:
                continue
            return "bindings:import-wrapper-or-type"
    return "unknown-frame"


def focus(cls):
    """Mirror of plan::focus: reduce a class to its `flh<..>` part (fixed-length
    list with heap elements: a separately generated lowering path)."""
    i = cls.find("flh<")
    if i < 0:
        return cls
    depth = 0
    for j in range(i + 3, len(cls)):
        if cls[j] == "<":
            depth += 1
        elif cls[j] == ">":
            depth -= 1
            if depth == 0:
                return cls[i:j + 1]
    return cls[i:]


def classify_crash(rc, stderr, platform):
    """A run died.  Returns (kind, signature, what) with kind in
    {'violation', 'inconclusive'}."""
    ctx = last_ctx(stderr)
    d = ctx.get("dir", "?")
    shape = focus(ctx.get("shape", "?"))
    fixed_list_import = d == "import" and "flh<" in ctx.get("shape", "")
    where = "%s `%s` phase %s (call %s, world %s, %s)" % (d, ctx.get("func"), ctx.get("phase"), ctx.get("call"), ctx.get("world"), platform)
    tail = stderr[-1800:]
    m = re.search(r"RSGUEST-MEM-ERROR kind=(\S+) ([^\n]*)", stderr)
    if m:
        return "violation", "rust-mem:%s:%s:%s" % (m.group(1), d, shape), "checking allocator: %s %s during %s" % (m.group(1), m.group(2)[:300], where)
    m = re.search(r"RSGUEST-SCRIPT-MISMATCH ([^\n]*)", stderr)
    if m:
        return "violation", "rust-e2e:%s:type-mismatch:%s" % (d, shape), "the Rust type of a parameter/result does not accept the canonical value of its WIT type: %s during %s" % (m.group(1)[:400], where)
    m = re.search(r"RSGUEST-RES-ERROR kind=(\S+) ([^\n]*)", stderr)
    if m:
        return "violation", "rust-res:%s:%s" % (m.group(1), ctx.get("op", d)), "resource table trap: %s %s during %s" % (m.group(1), m.group(2)[:300], where)
    m = re.search(r"error: Undefined Behavior: ([^\n]*)", stderr)
    if m and "uninitialized" in m.group(1) and "0: rsguest_host::conv::from_ptr64" in stderr:
        # Harness limitation, not a guest defect: on a 32-bit target the generated code fills only the
        # pointer half of a pointer-or-i64 flat slot (the other half is dead, as on wasm32); the glue
        # has to read the whole slot before it knows which case is active.
        return "inconclusive", None, "Miri: pointer-or-i64 slot with an uninitialised upper half read by the host glue (%s)" % where
    if m:
        msg = m.group(1)
        low = msg.lower()
        if "has been freed" in low or "dangling" in low and "freed" in low:
            k = "use-after-free"
        elif "out-of-bounds" in low or "dangling pointer" in low or "memory access failed" in low:
            k = "oob"
        elif "incorrect layout on deallocation" in low or "wrong size" in low or "wrong align" in low:
            k = "layout"
        elif "uninitialized" in low:
            k = "uninit-read"
        elif "deallocating" in low and ("which is" in low or "already" in low):
            k = "double-free"
        else:
            k = "ub-" + re.sub(r"[^a-z]+", "-", low)[:40].strip("-")
        if fixed_list_import and k in ("use-after-free", "oob", "uninit-read"):
            return "violation", SIG_FIXED_LIST_UAF, "Miri: %s during %s\n%s" % (msg[:300], where, tail)
        fk = frame_kind(stderr.split("Undefined Behavior", 1)[1])
        if fk == "unknown-frame" and ctx.get("phase") == "lift-result":
            fk = "host-lift-of-guest-memory"  # the host followed a pointer the guest returned
        return "violation", "rust-mem:%s:%s" % (k, fk), "Miri: %s during %s\n%s" % (msg[:300], where, tail)
    if "memory leaked" in stderr:
        return "violation", "rust-mem:leak:miri-exit:%s" % frame_kind(stderr.split("memory leaked", 1)[1]), "Miri leak report at exit (the host frees everything it owns) [%s]\n%s" % (platform, tail)
    m = re.search(r"panicked at ([^\n:]+):(\d+):\d+:\n([^\n]*)", stderr)
    if m:
        loc, msg = m.group(1), m.group(3)
        if "rsguest-host" in loc or "rsguest-support" in loc or "cabi-ref" in loc or "vkit" in loc:
            return "inconclusive", None, "harness panic at %s: %s (%s)" % (loc, msg[:200], where)
        site = "bindings" if "bindings.rs" in loc else ("runtime" if "guest-rust" in loc else os.path.basename(loc))
        return "violation", "rust-e2e:%s:panic-%s:%s" % (d, site, shape), "panic in %s: %s during %s" % (loc, msg[:300], where)
    if "unsupported operation" in stderr:
        m = re.search(r"unsupported operation: ([^\n]*)", stderr)
        return "inconclusive", None, "Miri: unsupported operation %s (%s)" % (m.group(1)[:200] if m else "", where)
    if rc is not None and rc < 0:
        sig = {-11: "sigsegv", -6: "sigabrt", -7: "sigbus", -4: "sigill", -8: "sigfpe"}.get(rc, "signal%d" % -rc)
        if fixed_list_import and ctx.get("phase") == "call":
            return "violation", SIG_FIXED_LIST_UAF, "the process died with %s during %s\n%s" % (sig, where, tail[-600:])
        if ctx.get("phase") in ("call", "post-return", "lift-result"):
            return "violation", "rust-mem:crash-%s:%s:%s" % (sig, d, shape), "the process died with %s during %s\n%s" % (sig, where, tail[-600:])
        return "inconclusive", None, "the process died with %s outside a guest call (%s)" % (sig, where)
    return "inconclusive", None, "run failed rc=%s (%s): %s" % (rc, where, tail[-600:])


def run_one(cmd, out_json, timeout, env=None, cwd=None):
    t0 = time.time()
    if os.path.exists(out_json):
        os.remove(out_json)
    rc, out, err = vcommon.sh(cmd, timeout=timeout, env=env, cwd=cwd)
    data = None
    if os.path.exists(out_json):
        try:
            with open(out_json) as f:
                data = json.load(f)
        except ValueError:
            data = None
    return dict(rc=rc, out=out, err=err, data=data, secs=time.time() - t0)


def absorb(rep, world, res, platform, timeout):
    """Merge one run into the report; returns True if it produced observations."""
    rc, err, data = res["rc"], res["err"], res["data"]
    wreplay = {"world": world["name"], "wit": world.get("wit"), "opts": world.get("opts"), "platform": platform}
    if data is not None:
        for smp in data.get("samples", []):
            # show the reader the WIT the sampled call belongs to
            fn = str(smp.get("func", ""))
            short = re.split(r"[#|]", fn)[-1]
            short = short.split("]")[-1].split(".")[-1] if short else short
            lines = [l.strip() for l in (world.get("wit") or "").splitlines() if short and re.search(r"(^|[\s%%])%s:" % re.escape(short), l)]
            smp["wit_excerpt"] = lines[:3] or (world.get("wit") or "")[:300]
            smp["platform"] = platform
            smp.setdefault("opts", json.dumps(world.get("opts")))
        for v in data.get("violations", []):
            v.setdefault("replay", {})
            v["replay"]["platform"] = platform
            v["what"] = "[%s] %s" % (platform, v.get("what"))
        rep.merge(data)
    if rc == 0 and data is not None:
        # Miri prints leak reports and still exits non-zero, so rc == 0 means clean
        return True
    if rc is None:
        rep.inconc("%s run: wall-clock watchdog fired after %ss" % (platform, timeout))
        return data is not None
    if rc != 0 or data is None:
        kind, sig, what = classify_crash(rc, err, platform)
        if kind == "violation" and sig.startswith("rust-mem:leak:miri-exit") and data is not None and any(
                v.get("signature", "").startswith("rust-mem:leak:") for v in data.get("violations", [])):
            return True  # the per-call balance check already reported this leak
        if kind == "violation":
            ctx = last_ctx(err)
            wreplay.update({"call": ctx.get("call"), "func": ctx.get("func"), "stderr_tail": err[-1500:]})
            rep.violation(sig, "[%s] %s [opts %s]" % (platform, what, json.dumps(world.get("opts"))), wreplay)
        else:
            rep.inconc("%s: %s" % (platform, what[:400]))
    return data is not None


def valgrind_findings(log):
    """Parse a memcheck log: returns [(kind, frame kind, excerpt)]."""
    out = []
    for block in re.split(r"\n==\d+== \n", log):
        head = block.strip().splitlines()[0] if block.strip() else ""
        head = re.sub(r"^==\d+== ", "", head)
        kind = None
        if "Invalid read" in head or "Invalid write" in head:
            kind = "oob"
        elif "Invalid free" in head or "Mismatched free" in head:
            kind = "double-free"
        elif "definitely lost" in head or "indirectly lost" in head:
            kind = "leak"
        elif "uninitialised" in head:
            kind = "uninit-read"
        if kind:
            text = re.sub(r"==\d+== ", "", block)
            # keep the head and, if present, the "block was free'd" part of the report
            i = text.find("free'd")
            excerpt = text[:900] + ("\n...\n" + text[max(0, i - 120): i + 500] if i > 900 else "")
            out.append((kind, frame_kind(text), excerpt))
    return out


def run_pipeline(prop, mode, tier, seed, replay=None):
    """The whole thing.  Returns a vcommon.Report that contains *all* violations
    (callers filter by signature prefix)."""
    P = dict(TIERS[mode][tier])
    rep = vcommon.Report(prop, level="exploration")
    wdir = os.path.join(work_root(), mode)
    t_start = time.time()
    with Lock(mode):
        if replay:
            idx = generate(mode, seed, 1, wdir, replay=replay)
            P.update(miri_worlds=1 if str(replay.get("platform", "")).startswith("miri") else 0, valgrind_worlds=0)
        else:
            idx = generate(mode, seed, P["worlds"], wdir)
        worlds = {w["name"]: w for w in idx["worlds"]}
        ok = [w for w in idx["worlds"] if w.get("status") == "ok"]
        not_ok = [w for w in idx["worlds"] if w.get("status") != "ok"]
        for w in not_ok:
            rep.inconc("world %s: %s: %s" % (w.get("origin", "?"), w.get("status"), str(w.get("error"))[:200]))
        glue_notes = [n for w in ok for n in w.get("notes", [])]
        for n in glue_notes[:5]:
            rep.inconc("glue generator note: %s" % n[:300])
        names = [w["name"] for w in ok]
        rep.extra["worlds_generated"] = len(ok)
        rep.extra["worlds_avoided_known_compile_defects"] = idx.get("avoided", {})
        rep.extra["configurations"] = sorted({json.dumps(w["opts"], sort_keys=True) for w in ok})
        rep.extra["configurations_distinct"] = len(rep.extra["configurations"])
        rep.extra["configurations"] = rep.extra["configurations"][:8]
        t0 = time.time()
        dbg, dbgdir = build(wdir, names, release=False)
        rep.extra["build_debug_s"] = round(time.time() - t0, 1)
        t0 = time.time()
        rel, reldir = build(wdir, names, release=True)
        rep.extra["build_release_s"] = round(time.time() - t0, 1)
        compile_failures = []
        for n in names:
            if dbg[n] or rel[n]:
                compile_failures.append({"world": n, "opts": worlds[n]["opts"], "error": (dbg[n] or rel[n])[:600], "wit": worlds[n]["wit"][:3000]})
                rep.inconc("generated echo machine does not compile (lead for C09, not a verdict here): %s" % re.sub(r"^\w+/src/", "", (dbg[n] or rel[n]))[:160])
        rep.extra["compile_failures"] = compile_failures[:8]
        rep.extra["compile_failure_count"] = len(compile_failures)
        runnable = [n for n in names if not dbg[n] and not rel[n]]
        scratch = vcommon.scratch_dir("rsguest-" + mode)
        jobs = []
        extra_args = ["--mode", mode]
        if mode == "resources":
            extra_args += ["--ops", "20" if tier == "quick" else "60"]
        for n in runnable:
            for prof, bdir, sd in (("debug", dbgdir, seed * 2 + 1), ("release", reldir, seed * 2 + 2)):
                out = os.path.join(scratch, "%s-%s.json" % (n, prof))
                run_seed = replay["seed"] if replay and "seed" in replay else sd * 1000003 + int(n[1:])
                cmd = [os.path.join(bdir, n), "--seed", str(run_seed), "--sets", str(P["sets"]), "--world", n, "--out", out] + extra_args
                if P["big"] and mode == "values":
                    cmd += ["--big", str(P["big"])]
                jobs.append((n, "native-x86_64-" + prof, cmd, out, 900, None, None))
        # Miri shard: smallest worlds first (interpretation is ~1000x slower)
        miri_names = sorted(runnable, key=lambda n: worlds[n].get("counts", {}).get("bindings_bytes", 0))
        if mode == "values":
            # the directed world for the known fixed-length-list defect goes under Miri at every seed
            corp = [n for n in runnable if str(worlds[n].get("origin", "")).startswith("directed")]
            miri_names = corp + [n for n in miri_names if n not in corp]
            if not replay:
                P["miri_worlds"] += len(corp)
        if mode == "resources":
            # the hand-written world with every handle position always goes under Miri
            corp = [n for n in runnable if str(worlds[n].get("origin", "")).startswith("corpus")]
            miri_names = corp + [n for n in miri_names if n not in corp]
        miri_names = miri_names[: P["miri_worlds"]]
        menv = cargo_env({"MIRIFLAGS": MIRIFLAGS})
        for n in miri_names:
            out = os.path.join(scratch, "%s-miri.json" % n)
            cmd = ["cargo", "+nightly", "miri", "run", "--offline", "-q", "-p", n, "--target", MIRI_TARGET, "--",
                   "--seed", str(replay["seed"] if replay and "seed" in replay else seed * 1000003 + 7 + int(n[1:])), "--sets", str(P["miri_sets"]),
                   "--max-list", "3", "--world", n, "--out", out] + extra_args
            jobs.append((n, "miri-" + MIRI_TARGET, cmd, out, 1500 if tier == "quick" else 3000, menv, wdir))
        vg_names = runnable[: P["valgrind_worlds"]] if shutil.which("valgrind") else []
        for n in vg_names:
            out = os.path.join(scratch, "%s-vg.json" % n)
            log = os.path.join(scratch, "%s-vg.log" % n)
            cmd = ["valgrind", "--tool=memcheck", "--leak-check=full", "--show-leak-kinds=definite,indirect", "--errors-for-leak-kinds=definite,indirect",
                   "--error-exitcode=0", "--log-file=" + log, os.path.join(reldir, n), "--seed", str(seed * 1000003 + 11 + int(n[1:])),
                   "--sets", str(P["valgrind_sets"]), "--world", n, "--out", out] + extra_args
            jobs.append((n, "valgrind-release", cmd, out, 3000, None, None))
        results = []

        def work(job):
            n, platform, cmd, out, timeout, env, cwd = job
            return job, run_one(cmd, out, timeout, env=env, cwd=cwd)

        # Miri jobs first so that they overlap with the (short) native runs
        jobs.sort(key=lambda j: 0 if j[1].startswith("miri") else 1)
        with concurrent.futures.ThreadPoolExecutor(max_workers=max(4, min(vcommon.NPROC, 16))) as ex:
            for job, res in ex.map(work, jobs):
                results.append((job, res))
        plat_counts = {}
        plat_secs = {}
        for (n, platform, cmd, out, timeout, env, cwd), res in results:
            got = absorb(rep, worlds[n], res, platform, timeout)
            if got:
                plat_counts[platform] = plat_counts.get(platform, 0) + 1
            plat_secs[platform] = round(plat_secs.get(platform, 0) + res["secs"], 1)
            if platform == "valgrind-release":
                log = out[:-5] + ".log"
                if os.path.exists(log):
                    with open(log, errors="replace") as f:
                        txt = f.read()
                    nflh = ((res["data"] or {}).get("extra", {}).get("counters", {}) or {}).get("import_functions_with_fixed_list_of_heap_elements", 0)
                    known_leak = any(v.get("signature") == SIG_FIXED_LIST_LEAK for v in (res["data"] or {}).get("violations", []))
                    for kind, fk, text in valgrind_findings(txt):
                        if kind == "leak" and known_leak:
                            continue  # the per-call balance check already attributed this leak
                        if nflh and kind in ("oob", "uninit-read") and "free'd" in text:
                            # read of a block that was freed before the import was called
                            rep.violation(SIG_FIXED_LIST_UAF, "[valgrind] %s\n%s" % (kind, text),
                                          {"world": n, "wit": worlds[n]["wit"], "opts": worlds[n]["opts"], "platform": "valgrind-release"})
                            continue
                        if fk == "unknown-frame":
                            rep.inconc("valgrind report without a generated/runtime frame: %s" % text[:200])
                            continue
                        rep.violation("rust-mem:%s:%s" % (kind, fk), "[valgrind] %s\n%s [opts %s]" % (kind, text, json.dumps(worlds[n]["opts"])),
                                      {"world": n, "wit": worlds[n]["wit"], "opts": worlds[n]["opts"], "platform": "valgrind-release"})
        if not rep.samples and ok:
            # never an empty sample list: at least the first world as generated
            w0 = ok[0]
            rep.samples.append({"world": w0["name"], "origin": w0.get("origin"), "opts": w0.get("opts"), "wit": w0.get("wit", "")[:1500]})
        # collapse repeated inconclusive reasons (one entry per reason, with a count)
        merged = {}
        for i in rep.inconclusive:
            why = re.sub(r"^(native-x86_64-(debug|release)|miri-\S+|valgrind-release): ", "", str(i.get("why")))
            merged[why] = merged.get(why, 0) + int(i.get("count", 1))
        rep.inconclusive = [{"why": k, "count": v} for k, v in merged.items()]
        rep.extra["runs_by_platform"] = plat_counts
        rep.extra["run_seconds_by_platform"] = plat_secs
        rep.extra["pipeline_s"] = round(time.time() - t_start, 1)
        vcommon.rm_scratch(scratch)
    return rep


def filter_for(rep, prefixes):
    """Keep only this property's violations; record the others as a note."""
    mine, other = [], set()
    for v in rep.violations:
        if any(v.get("signature", "").startswith(p) for p in prefixes):
            mine.append(v)
        else:
            other.add(v.get("signature"))
    rep.violations = mine
    if other:
        rep.extra["other_property_signatures"] = sorted(other)[:20]
    return rep
