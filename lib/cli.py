"""Build and run the real wit-bindgen CLI from the working tree (VERIF_REPO),
with hooks compiled in, into a sub-directory of the /verif target dir."""
import os
import vcommon

_BUILT = {}


def build_cli(hooks=True):
    """Incremental `cargo build --bin wit-bindgen` of $VERIF_REPO; returns the binary path."""
    key = bool(hooks)
    if key in _BUILT:
        return _BUILT[key]
    tdir = os.path.join(vcommon.TARGET, "repo-cli" if hooks else "repo-cli-nohooks")
    env = vcommon.base_env({"CARGO_TARGET_DIR": tdir}, hooks=hooks)
    rc, out, err = vcommon.sh(["cargo", "build", "--offline", "--manifest-path", os.path.join(vcommon.REPO, "Cargo.toml"),
                               "--bin", "wit-bindgen"], env=env, timeout=3600)
    if rc != 0:
        raise vcommon.HarnessFailure("building the wit-bindgen CLI failed:\n" + err[-6000:])
    path = os.path.join(tdir, "debug", "wit-bindgen")
    _BUILT[key] = path
    return path


def run_cli(args, cwd=None, env_extra=None, timeout=120, wasm_imports=False):
    """Run the CLI; returns (rc, stdout, stderr); rc None on watchdog timeout.
    With hooks compiled in, the Rust backend emits native `verif_import|..`
    declarations unless wasm_imports=True (sets VERIF_WASM_IMPORTS=1, which
    restores the unmodified output)."""
    exe = build_cli()
    env = dict(os.environ)
    env.pop("RUST_LOG", None)
    if wasm_imports:
        env["VERIF_WASM_IMPORTS"] = "1"
    if env_extra:
        env.update(env_extra)
    return vcommon.sh([exe] + list(args), cwd=cwd, env=env, timeout=timeout)
