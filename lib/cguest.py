"""Shared pipeline of checks C10/C11: worlds -> working-tree C generator (CLI)
-> echo machine (cguest gen) -> native sanitizer build -> run against the Rust
reference host -> merge reports.  See crates/cguest, crates/cguest-host."""
import concurrent.futures
import json
import os
import re
import shutil
import subprocess
import time

import cli
import vcommon

SUPPORT = os.path.join(vcommon.VERIF, "support", "cguest")
DEFS = ["-Dmalloc=cg_malloc", "-Dfree=cg_free", "-Drealloc=cg_realloc", "-Dcalloc=cg_calloc"]
SAN = ["-fsanitize=address,undefined", "-fno-sanitize-recover=all", "-fno-omit-frame-pointer"]
ASAN_ENV = {
    "ASAN_OPTIONS": "detect_leaks=1:halt_on_error=1:abort_on_error=0:exitcode=87:detect_stack_use_after_return=0",
    "UBSAN_OPTIONS": "halt_on_error=1:print_stacktrace=1",
    "LSAN_OPTIONS": "exitcode=88",
}


class Toolchain:
    def __init__(self):
        bindir = vcommon.cargo_build("cguest", bins=["cguest"])
        vcommon.cargo_build("cguest-host")
        self.cguest = os.path.join(bindir, "cguest")
        lib = os.path.join(bindir, "libcguest_host.a")
        if not os.path.exists(lib):
            raise vcommon.HarnessFailure("libcguest_host.a was not produced")
        self.scratch = vcommon.scratch_dir("cguest")
        # a debug-stripped copy links several times faster
        self.hostlib = os.path.join(self.scratch, "libcguest_host.a")
        rc, _, _ = vcommon.sh(["strip", "--strip-debug", "-o", self.hostlib, lib], timeout=300)
        if rc != 0:
            shutil.copy(lib, self.hostlib)
        self.cli = cli.build_cli()
        self.linker = []
        for l in ("mold", "lld"):
            if shutil.which("ld." + l) or shutil.which(l):
                self.linker = ["-fuse-ld=" + l]
                break
        self.main_objs = {}

    def main_obj(self, cc, flags):
        key = (cc, tuple(flags))
        if key not in self.main_objs:
            o = os.path.join(self.scratch, "main-%d.o" % len(self.main_objs))
            vcommon.sh([cc] + flags + ["-c", os.path.join(SUPPORT, "cg_main.c"), "-o", o], timeout=120, check=True)
            self.main_objs[key] = o
        return self.main_objs[key]

    def close(self):
        vcommon.rm_scratch(self.scratch)


BUILDS = {
    # name: (compiler, flags, sanitized)
    "clang-asan-O1": ("clang", SAN + ["-g", "-O1"], True),
    "gcc-O2": ("gcc", ["-g", "-O2", "-fno-omit-frame-pointer"], False),
    "clang-asan-O2": ("clang", SAN + ["-g", "-O2"], True),
}

GEN_FRAME = re.compile(r"#\d+ 0x[0-9a-f]+ in (\S+) (\S+?):(\d+)")


def classify_fn(name):
    if name.endswith("_post_return"):
        return "post-return"
    if name.startswith("__wasm_export_"):
        return "export-wrapper"
    if name.endswith("_free"):
        return "free-helper"
    if name == "cabi_realloc":
        return "cabi-realloc"
    return "import-wrapper"


def sanitizer_verdict(stderr, bindings_file):
    """Find the first frame inside the generated bindings in a sanitizer report.
    Returns (kind, function kind, summary) or None if no generated frame is involved."""
    if "ERROR: AddressSanitizer" in stderr:
        m = re.search(r"ERROR: AddressSanitizer: (\S+)", stderr)
        what = m.group(1) if m else "asan"
        kind = {"heap-use-after-free": "uaf", "double-free": "double-free", "attempting": "double-free"}.get(what, "oob")
    elif "ERROR: LeakSanitizer" in stderr:
        kind = "leak"
    elif "runtime error:" in stderr:
        kind = "ub"
        m = re.search(r"runtime error: (.*)", stderr)
        msg = m.group(1) if m else ""
        slug = "other"
        for pat, name in (("not a valid value for type 'bool'", "invalid-bool-load"), ("misaligned", "misaligned-access"), ("null pointer", "null-pointer"),
                          ("signed integer overflow", "signed-overflow"), ("shift", "shift"), ("out of bounds", "index-out-of-bounds"),
                          ("not a valid value for type", "invalid-enum-load"), ("outside the range of representable", "float-cast-overflow")):
            if pat in msg:
                slug = name
                break
        ubslug = slug
    else:
        return None
    base = os.path.basename(bindings_file)
    first = None
    for m in GEN_FRAME.finditer(stderr):
        if os.path.basename(m.group(2)) == base:
            first = m.group(1)
            break
    if first is None:
        m = re.search(r"(\S+):(\d+):(\d+): runtime error: (.*)", stderr)
        if m and os.path.basename(m.group(1)) == base:
            # UBSan names file:line only; the function comes from the stack trace if present
            first = "?"
    if first is None:
        return (kind, None, stderr[-1500:])
    fk = classify_fn(first) if first != "?" else "generated-code"
    if kind == "ub":
        fk = fk + ":" + ubslug
    return (kind, fk, stderr[:1500])


def run_world(tc, w, mode, seed, sets, builds, keep=False, only=None):
    """Returns a dict: {report: host report or None, status, why, ...}"""
    d = w["dir"]
    wit = os.path.join(d, "world.wit")
    opts = w["opts"]
    res = {"world": w, "status": "ok", "why": None, "reports": [], "compile_failure": None}
    gen = os.path.join(d, "gen")
    os.makedirs(gen, exist_ok=True)
    args = ["c", wit, "--world", w["world"], "--out-dir", gen, "--no-object-file"]
    for o in opts.split("+"):
        if o == "no-sig-flattening":
            args.append("--no-sig-flattening")
        elif o == "autodrop":
            args.append("--autodrop-borrows=yes")
        elif o == "utf16":
            args += ["--string-encoding", "utf16"]
    rc, out, err = vcommon.sh([tc.cli] + args, timeout=120)
    if rc != 0:
        msg = (err or out)[:4000]
        res["status"] = "generator-failed"
        declared = ("Unable to autodrop borrows" in msg) or ("not yet supported in the C backend" in msg) or ("fixed length list" in msg.lower()) or ("fixed-length" in msg.lower())
        lines = [l.strip() for l in (err or out).splitlines() if l.strip()]
        key = [l for l in lines if l.startswith("Error") or "panicked at" in l or "not yet" in l or "Unable to" in l]
        line = ""
        if key:
            k = lines.index(key[0])
            line = " ".join(lines[k:k + 2])
        res["why"] = ("declared limitation: " if declared else "generator failed (C16's business): ") + line[:300]
        res["declared"] = declared
        return res
    rc, out, err = vcommon.sh([tc.cguest, "gen", "--wit", wit, "--world", w["world"], "--gen", gen, "--out", gen, "--opts", opts], timeout=120)
    try:
        with open(os.path.join(gen, "gen.json")) as f:
            gi = json.load(f)
    except Exception:
        gi = {"ok": False, "why": "cguest gen crashed: " + (err or out)[-400:]}
    res["gen"] = gi
    if not gi.get("ok"):
        res["status"] = "unlearnable"
        res["why"] = gi.get("why")
        return res
    shutil.copy(os.path.join(SUPPORT, "cg_rt.h"), gen)
    bindings = os.path.join(gen, gi["bindings"])
    for bname in builds:
        cc, flags, sanitized = BUILDS[bname]
        bo = os.path.join(gen, "bind-%s.o" % bname)
        eo = os.path.join(gen, "echo-%s.o" % bname)
        exe = os.path.join(gen, "prog-%s" % bname)
        rc, out, err = vcommon.sh([cc] + flags + DEFS + ["-w", "-I", gen, "-c", bindings, "-o", bo], timeout=300)
        if rc != 0:
            res["compile_failure"] = {"file": gi["bindings"], "build": bname, "stderr": err[-1200:]}
            res["status"] = "bindings-do-not-compile"
            res["why"] = "generated bindings do not compile natively (lead for C12)"
            return res
        rc, out, err = vcommon.sh([cc] + flags + DEFS + ["-I", gen, "-c", os.path.join(gen, "echo.c"), "-o", eo], timeout=300)
        if rc != 0:
            in_header = (gi["header"] + ":") in err and "echo.c:" not in err.split("error:")[0][-200:]
            res["status"] = "bindings-do-not-compile" if in_header else "echo-machine-bug"
            res["why"] = ("generated header does not compile (lead for C12): " if in_header else "echo machine does not compile (harness bug): ") + err[-600:]
            if in_header:
                res["compile_failure"] = {"file": gi["header"], "build": bname, "stderr": err[-1200:]}
            return res
        link = [cc] + ([f for f in flags if f.startswith("-fsanitize")]) + (tc.linker if cc == "clang" else []) + [bo, eo, tc.main_obj(cc, flags), tc.hostlib, "-lpthread", "-ldl", "-lm", "-o", exe]
        rc, out, err = vcommon.sh(link, timeout=600)
        if rc != 0 and tc.linker and cc == "clang":
            link = [x for x in link if x not in tc.linker]
            rc, out, err = vcommon.sh(link, timeout=600)
        if rc != 0:
            res["status"] = "link-failed"
            res["why"] = "link failed: " + err[-800:]
            return res
        rep = os.path.join(gen, "report-%s.json" % bname)
        prog = os.path.join(gen, "progress-%s.log" % bname)
        cmd = [exe, "--wit", wit, "--world", w["world"], "--plan", os.path.join(gen, "plan.json"), "--opts", opts, "--seed", str(seed), "--sets", str(sets),
               "--mode", mode, "--out", rep, "--progress", prog]
        if only:
            cmd += ["--func", str(only[0]), "--set", str(only[1])]
        env = dict(os.environ)
        env.update(ASAN_ENV)
        rc, out, err = vcommon.sh(cmd, timeout=600, env=env)
        data = None
        if os.path.exists(rep):
            try:
                with open(rep) as f:
                    data = json.load(f)
            except Exception:
                data = None
        last = ""
        if os.path.exists(prog):
            with open(prog) as f:
                lines = [l.strip() for l in f.readlines() if l.startswith("BEGIN")]
            last = lines[-1] if lines else ""
        r = {"build": bname, "rc": rc, "report": data, "last_call": last, "crash": None}
        if rc is None:
            r["crash"] = ("timeout", None, "watchdog")
        elif rc != 0 or data is None:
            v = sanitizer_verdict(err, bindings)
            r["crash"] = v if v else ("crash", None, (err or out)[-1500:])
        res["reports"].append(r)
    return res


def make_worlds(tc, root, seed, count, resources):
    vcommon.sh([tc.cguest, "worlds", "--seed", str(seed), "--count", str(count), "--resources", "1" if resources else "0", "--out", root], timeout=1200, check=True)
    with open(os.path.join(root, "worlds.json")) as f:
        return json.load(f)["worlds"]


def run_check(prop, mode, tier, seed, replay, resources, quick=(16, 30), thorough=(300, 150)):
    rep = vcommon.Report(prop, level="exploration",
                         rule="evaluation = one call (function x value set) through the generated C bindings, judged in every direction it exercises; "
                              "distinct = direction x option variant x structural shapes of the parameter/result types")
    tc = Toolchain()
    root = vcommon.scratch_dir(prop.lower())
    try:
        count, sets = quick if tier == "quick" else thorough
        builds = ["clang-asan-O1"] if tier == "quick" else ["clang-asan-O1", "gcc-O2"]
        only = None
        if replay:
            rp = replay.get("replay", {})
            d = os.path.join(root, "w000")
            os.makedirs(d)
            with open(os.path.join(d, "world.wit"), "w") as f:
                f.write(rp["wit"])
            import re as _re
            m = _re.findall(r"^world\s+(%?[a-z0-9-]+)", rp["wit"], _re.M)
            wname = rp.get("world") or (m[-1].lstrip("%") if m else "w")
            worlds = [{"dir": d, "world": wname, "opts": rp.get("opts", "default"), "origin": "replay", "tags": [], "index": 0}]
            seed = int(rp.get("seed", seed))
            if "func_index" in rp:
                only = (rp["func_index"], rp.get("set", 0))
            sets = max(sets, int(rp.get("set", 0)) + 1)
        else:
            worlds = make_worlds(tc, root, seed, count, resources)
        t0 = time.time()
        with concurrent.futures.ThreadPoolExecutor(max_workers=max(2, vcommon.NPROC)) as ex:
            results = list(ex.map(lambda w: _safe(tc, w, mode, seed, sets, builds, only), worlds))
        merge(rep, results, prop)
        rep.extra["pipeline_wall_s"] = round(time.time() - t0, 1)
        rep.extra["tier_plan"] = {"worlds": len(worlds), "value_sets": sets, "builds": builds}
    finally:
        vcommon.rm_scratch(root)
        tc.close()
    return rep


def _safe(tc, w, mode, seed, sets, builds, only):
    try:
        return run_world(tc, w, mode, seed, sets, builds, only=only)
    except Exception as e:  # a crash of the pipeline for one world is inconclusive for that world
        return {"world": w, "status": "pipeline-error", "why": "pipeline error: %r" % (e,), "reports": [], "compile_failure": None}


def merge(rep, results, prop):
    judged = 0
    skipped = {}
    comp_fail = []
    variants = {}
    funcs_total = funcs_enabled = 0
    fskip = {}
    for r in results:
        w = r["world"]
        if r["status"] != "ok":
            key = r["status"]
            skipped[key] = skipped.get(key, 0) + 1
            rep.inconc("%s: %s" % (r["status"], (r.get("why") or "")[:200]))
            if r.get("compile_failure"):
                comp_fail.append({"origin": w["origin"], "opts": w["opts"], **r["compile_failure"]})
            continue
        gi = r.get("gen", {})
        funcs_total += gi.get("funcs", 0)
        funcs_enabled += gi.get("enabled", 0)
        for s in gi.get("skipped", []):
            why = (s.get("why") or "?")
            why = re.sub(r"`[^`]*`", "`..`", why)[:120]
            fskip[why] = fskip.get(why, 0) + 1
        ok_world = True
        for b in r["reports"]:
            data = b["report"]
            if data is not None:
                data = dict(data)
                data["samples"] = data.get("samples", [])[:1]
                for v in data.get("violations", []):
                    v.setdefault("replay", {})["world"] = w["world"]
                rep.merge(data)
            if b["crash"]:
                kind, fk, text = b["crash"]
                ok_world = False
                wit = open(os.path.join(w["dir"], "world.wit")).read()
                text = re.sub(r"/var/tmp/verif-\d+-\w+/w\d+/gen/", "", text)
                text = re.sub(r"0x[0-9a-f]+|==\d+==|\(BuildId: [0-9a-f]+\)|\+0x[0-9a-f]+", "", text)
                rpl = {"wit": wit, "opts": w["opts"], "build": b["build"], "last_call": b["last_call"], "stderr": text}
                m = re.match(r"BEGIN (\w+) (\d+) set (\d+)", b["last_call"] or "")
                if m:
                    rpl["func_index"] = int(m.group(2))
                    rpl["set"] = int(m.group(3))
                if kind in ("timeout", "crash") or fk is None:
                    rep.inconc("run of the echo machine ended abnormally without a generated-code frame (%s): %s" % (kind, text[-160:].replace("\n", " ")))
                elif prop == "C10" and kind == "leak":
                    rep.inconc("LeakSanitizer report at exit (ownership is judged by C11)")
                elif prop == "C11" or kind == "ub":
                    rep.violation("c-mem:%s:%s" % (kind, fk), "sanitizer report in generated code (%s) during %s [options %s, build %s]: %s"
                                  % (fk, b["last_call"], w["opts"], b["build"], text[:700]), rpl)
                else:
                    rep.violation("c-e2e:sanitizer:%s:%s" % (kind, fk), "sanitizer report in generated code (%s) during %s [options %s, build %s]: %s"
                                  % (fk, b["last_call"], w["opts"], b["build"], text[:700]), rpl)
        if ok_world:
            judged += 1
            variants[w["opts"]] = variants.get(w["opts"], 0) + 1
    # one line per distinct reason
    agg = {}
    for i in rep.inconclusive:
        agg[i.get("why")] = agg.get(i.get("why"), 0) + int(i.get("count", 1))
    rep.inconclusive = [{"why": k, "count": v} for k, v in sorted(agg.items(), key=lambda kv: -kv[1])]
    rep.extra["worlds_total"] = len(results)
    rep.extra["worlds_fully_judged"] = judged
    rep.extra["worlds_skipped"] = skipped
    rep.extra["worlds_per_option_variant"] = variants
    rep.extra["functions_total"] = funcs_total
    rep.extra["functions_exercised"] = funcs_enabled
    rep.extra["functions_skipped_why"] = fskip
    rep.extra["compile_failures"] = comp_fail
    rep.assumptions += [a for a in [
        "generated C is compiled natively (x86-64): the reference is cabi-ref with 8-byte pointers; wasm32-only layout differences are out of reach",
        "the host allocates guest-visible memory through the generated cabi_realloc and the guest's malloc/free/realloc/calloc are interposed by a live-block ledger",
    ] if a not in rep.assumptions]
