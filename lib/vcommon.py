"""Shared orchestration for /verif checks: seeds, builds, harness runs, verdicts,
evidence files, known findings.  Verdicts are three-valued (held / violated /
inconclusive); see DESIGN.md section 0."""
import hashlib
import json
import os
import shutil
import subprocess
import sys
import time

VERIF = os.path.dirname(os.path.dirname(os.path.abspath(__file__)))
REPO = os.path.abspath(os.environ.get("VERIF_REPO", "/repo"))
# Registered commands always run against /repo.  For development (sensitivity
# runs against a scratch worktree, several agents in parallel) VERIF_REPO points
# somewhere else; then the harness workspace is mirrored with its /repo paths
# rewritten, and build output / evidence / replay files go next to the mirror so
# that nothing under /verif is touched.
if REPO == "/repo":
    _ALT = None
    CRATES = os.path.join(VERIF, "crates")
    TARGET = os.environ.get("VERIF_TARGET_DIR", os.path.join(VERIF, "target"))
    EVIDENCE = os.path.join(VERIF, "evidence")
    REPLAY = os.path.join(VERIF, "replay")
else:
    _ALT = os.path.join("/var/tmp", "verif-mirror-" + hashlib.sha256(REPO.encode()).hexdigest()[:10])
    CRATES = os.path.join(_ALT, "crates")
    TARGET = os.environ.get("VERIF_TARGET_DIR", os.path.join(_ALT, "target"))
    EVIDENCE = os.path.join(_ALT, "evidence")
    REPLAY = os.path.join(_ALT, "replay")
_MIRRORED = False


def sync_mirror():
    """When VERIF_REPO != /repo: copy /verif/crates to the mirror with every
    `/repo/` path in the workspace manifest rewritten."""
    global _MIRRORED
    if _ALT is None or _MIRRORED:
        return
    os.makedirs(CRATES, exist_ok=True)
    subprocess.run(["rsync", "-a", "--delete", "--exclude", "target", os.path.join(VERIF, "crates") + "/", CRATES + "/"], check=True)
    mf = os.path.join(CRATES, "Cargo.toml")
    with open(mf) as f:
        txt = f.read()
    with open(mf, "w") as f:
        f.write(txt.replace('"/repo/', '"%s/' % REPO))
    _MIRRORED = True
GUARD = "bytecodealliance_wit_bindgen_verif"
NPROC = os.cpu_count() or 4

MASK = (1 << 64) - 1


class Rng:
    """SplitMix64-seeded xoshiro256**; mirrors crates/prng."""

    def __init__(self, seed):
        s = seed & MASK
        st = []
        for _ in range(4):
            s = (s + 0x9E3779B97F4A7C15) & MASK
            z = s
            z = ((z ^ (z >> 30)) * 0xBF58476D1CE4E5B9) & MASK
            z = ((z ^ (z >> 27)) * 0x94D049BB133111EB) & MASK
            st.append(z ^ (z >> 31))
        self.s = st

    @staticmethod
    def _rotl(x, k):
        return ((x << k) | (x >> (64 - k))) & MASK

    def next(self):
        s = self.s
        r = (self._rotl((s[1] * 5) & MASK, 7) * 9) & MASK
        t = (s[1] << 17) & MASK
        s[2] ^= s[0]
        s[3] ^= s[1]
        s[1] ^= s[2]
        s[0] ^= s[3]
        s[2] ^= t
        s[3] = self._rotl(s[3], 45)
        return r

    def below(self, n):
        return self.next() % n if n > 0 else 0

    def chance(self, num, den):
        return self.below(den) < num

    def pick(self, xs):
        return xs[self.below(len(xs))]

    def fork(self, tag):
        h = hashlib.sha256(("%d/%s" % (self.next(), tag)).encode()).digest()
        return Rng(int.from_bytes(h[:8], "little"))


class Inconclusive(Exception):
    pass


class HarnessFailure(Exception):
    """The machinery itself could not run (not a verdict on the code)."""


def seed():
    try:
        return int(os.environ.get("VERIF_SEED", "0"))
    except ValueError:
        return 0


def base_env(extra=None, hooks=True):
    env = dict(os.environ)
    env["CARGO_NET_OFFLINE"] = "true"
    env["CARGO_TARGET_DIR"] = TARGET
    env["VERIF_REPO"] = REPO
    env.setdefault("CARGO_TERM_COLOR", "never")
    flags = env.get("VERIF_EXTRA_RUSTFLAGS", "")
    if hooks:
        flags = ("--cfg %s " % GUARD) + flags
    env["RUSTFLAGS"] = (flags + " -Awarnings").strip()
    env.pop("RUSTC_WRAPPER", None)
    if extra:
        env.update(extra)
    return env


def sh(cmd, timeout=None, env=None, cwd=None, stdin=None, check=False):
    """Run a command, return (rc, stdout, stderr); rc=None on watchdog timeout."""
    try:
        p = subprocess.run(cmd, cwd=cwd, env=env, input=stdin, timeout=timeout,
                           stdout=subprocess.PIPE, stderr=subprocess.PIPE,
                           shell=isinstance(cmd, str))
    except subprocess.TimeoutExpired as e:
        return None, (e.stdout or b"").decode("utf8", "replace"), (e.stderr or b"").decode("utf8", "replace")
    out = p.stdout.decode("utf8", "replace")
    err = p.stderr.decode("utf8", "replace")
    if check and p.returncode != 0:
        raise HarnessFailure("command failed rc=%s: %s\n%s\n%s" % (p.returncode, cmd, out[-4000:], err[-4000:]))
    return p.returncode, out, err


def cargo_build(package, bins=None, release=False, features=None, toolchain=None,
                extra_args=None, env_extra=None, hooks=True, timeout=3600):
    """Incremental build in /verif/target against /repo's working tree.
    Returns the directory holding the binaries.  A failed build is a harness
    failure (exit 2), never a verdict."""
    sync_mirror()
    cmd = ["cargo"]
    if toolchain:
        cmd.append("+" + toolchain)
    cmd += ["build", "--offline", "-p", package]
    for b in bins or []:
        cmd += ["--bin", b]
    if release:
        cmd.append("--release")
    if features:
        cmd += ["--features", ",".join(features)]
    if extra_args:
        cmd += extra_args
    env = base_env(env_extra, hooks=hooks)
    t0 = time.time()
    rc, out, err = sh(cmd, cwd=CRATES, env=env, timeout=timeout)
    if rc != 0:
        raise HarnessFailure("cargo build -p %s failed (rc=%s) after %.0fs:\n%s" % (package, rc, time.time() - t0, err[-6000:]))
    return os.path.join(TARGET, "release" if release else "debug")


def scratch_dir(tag):
    d = os.path.join(os.environ.get("VERIF_SCRATCH", "/var/tmp"), "verif-%d-%s" % (os.getpid(), tag))
    shutil.rmtree(d, ignore_errors=True)
    os.makedirs(d)
    return d


def rm_scratch(d):
    shutil.rmtree(d, ignore_errors=True)


def stable_hash(obj):
    return hashlib.sha256(json.dumps(obj, sort_keys=True, default=str).encode()).hexdigest()[:16]


class Report:
    """Accumulates what a check observed.  Merges harness JSON reports:
    {evaluations, distinct:[hash..] | distinct_nontrivial, samples, violations:[{signature, what, replay}],
     inconclusive:[{why,count}], extra:{...}, assumptions:[...]}"""

    def __init__(self, prop, level="exploration", rule=""):
        self.prop = prop
        self.level = level
        self.rule = rule
        self.evaluations = 0
        self.distinct = set()
        self.distinct_extra = 0
        self.samples = []
        self.violations = []
        self.inconclusive = []
        self.extra = {}
        self.assumptions = []
        self.t0 = time.time()

    def merge(self, h):
        self.evaluations += int(h.get("evaluations", 0))
        for d in h.get("distinct", []):
            self.distinct.add(d)
        self.distinct_extra += int(h.get("distinct_nontrivial", 0)) if "distinct" not in h else 0
        for s in h.get("samples", []):
            if len(self.samples) < 12:
                self.samples.append(s)
        self.violations += h.get("violations", [])
        self.inconclusive += h.get("inconclusive", [])
        for k, v in h.get("extra", {}).items():
            if isinstance(v, (int, float)) and isinstance(self.extra.get(k), (int, float)):
                self.extra[k] += v
            elif isinstance(v, dict) and isinstance(self.extra.get(k), dict):
                for kk, vv in v.items():
                    if isinstance(vv, (int, float)) and isinstance(self.extra[k].get(kk), (int, float)):
                        self.extra[k][kk] += vv
                    else:
                        self.extra[k][kk] = vv
            elif isinstance(v, list) and isinstance(self.extra.get(k), list):
                for x in v:
                    if x not in self.extra[k] and len(self.extra[k]) < 64:
                        self.extra[k].append(x)
            else:
                self.extra[k] = v
        for a in h.get("assumptions", []):
            if a not in self.assumptions:
                self.assumptions.append(a)
        if h.get("rule") and not self.rule:
            self.rule = h["rule"]

    def add_eval(self, key=None, n=1):
        self.evaluations += n
        if key is not None:
            self.distinct.add(key if isinstance(key, str) else stable_hash(key))

    def violation(self, signature, what, replay=None):
        self.violations.append({"signature": signature, "what": what, "replay": replay or {}})

    def inconc(self, why, count=1):
        for i in self.inconclusive:
            if i.get("why") == why:
                i["count"] = i.get("count", 1) + count
                return
        self.inconclusive.append({"why": why, "count": count})


def run_harness(report, cmd, timeout, env=None, cwd=None, out_json=None, what="harness"):
    """Run a harness binary that writes a JSON report to `out_json` (or stdout's
    last line if out_json is None) and merge it.  Crash/timeouts are inconclusive
    unless the harness managed to write violations first."""
    rc, out, err = sh(cmd, timeout=timeout, env=env, cwd=cwd)
    data = None
    try:
        if out_json:
            with open(out_json) as f:
                data = json.load(f)
        else:
            for line in reversed(out.strip().splitlines()):
                if line.startswith("{"):
                    data = json.loads(line)
                    break
    except Exception:
        data = None
    if data is not None:
        report.merge(data)
    if rc is None:
        report.inconc("%s: wall-clock watchdog fired after %ss" % (what, timeout))
    elif rc != 0 and data is None:
        report.inconc("%s: exited rc=%s without a report: %s" % (what, rc, (err or out)[-600:]))
    return rc, out, err, data


def load_known():
    p = os.path.join(VERIF, "known_findings.json")
    if not os.path.exists(p):
        return []
    with open(p) as f:
        return json.load(f).get("findings", [])


def finish(report, tier, min_evals=1, min_distinct=2):
    """Classify, write replay + evidence files, print verdict lines, return exit code."""
    prop = report.prop
    known = [k for k in load_known() if k.get("property") == prop and k.get("status") == "known"]
    known_sigs = {k["signature"]: k for k in known}
    seen_known = {}
    fresh = {}
    for v in report.violations:
        sig = v.get("signature", "?")
        if sig in known_sigs:
            seen_known.setdefault(sig, v)
        else:
            fresh.setdefault(sig, v)
    for sig, v in sorted(seen_known.items()):
        print("KNOWN-FINDING: property=%s %s [%s]" % (prop, known_sigs[sig].get("what", v.get("what", "")), sig))
    rc = 0
    replay_paths = []
    if fresh:
        os.makedirs(os.path.join(REPLAY, prop), exist_ok=True)
        for sig, v in sorted(fresh.items()):
            body = {"property": prop, "signature": sig, "what": v.get("what"), "seed": seed(), "tier": tier,
                    "replay": v.get("replay", {})}
            path = os.path.join(REPLAY, prop, stable_hash([sig, v.get("what")]) + ".json")
            with open(path, "w") as f:
                json.dump(body, f, indent=1, default=str)
            replay_paths.append(path)
            print("VIOLATION property=%s replay=%s" % (prop, path))
            print("  signature: %s" % sig)
            print("  what: %s" % str(v.get("what"))[:2000])
        rc = 1
    for i in report.inconclusive:
        print("INCONCLUSIVE property=%s %s (x%s)" % (prop, str(i.get("why"))[:500], i.get("count", 1)))
    distinct = len(report.distinct) + report.distinct_extra
    if rc == 0 and (report.evaluations < min_evals or distinct < min_distinct):
        print("INCONCLUSIVE property=%s too little observed: evaluations=%d distinct=%d (floors %d/%d)"
              % (prop, report.evaluations, distinct, min_evals, min_distinct))
        rc = 2
    if not report.samples and report.evaluations > 0:
        # last resort so the record stays well-formed; harnesses are expected to
        # supply real cases (this line is printed so the omission gets noticed)
        print("WARNING property=%s harness supplied no samples; recording aggregate counters as the only sample" % prop)
        report.samples.append({"note": "no per-case sample supplied by the harness; aggregate counters of this run",
                               "evaluations": report.evaluations,
                               "counters": {k: v for k, v in report.extra.items() if isinstance(v, (int, float, dict))}})
    cov = {
        "evaluations": report.evaluations,
        "distinct_nontrivial": distinct,
        "rule": report.rule,
        "samples": report.samples[:12] if report.samples else [],
        "inconclusive": report.inconclusive,
        "known_findings_reobserved": sorted(seen_known),
        "new_violation_signatures": sorted(fresh),
    }
    cov.update(report.extra)
    ev = {
        "property_id": prop,
        "tier": tier,
        "seed": seed(),
        "level": report.level,
        "coverage": cov,
        "assumptions": report.assumptions,
        "wall_s": round(time.time() - report.t0, 2),
        "violations": len(fresh),
    }
    os.makedirs(EVIDENCE, exist_ok=True)
    if rc != 2:
        with open(os.path.join(EVIDENCE, prop + ".json"), "w") as f:
            json.dump(ev, f, indent=1, default=str)
            f.write("\n")
    verdict = {0: "held on what was observed", 1: "VIOLATED", 2: "inconclusive (nothing usable observed)"}[rc]
    print("%s: %s; evaluations=%d distinct=%d known=%d wall=%.1fs"
          % (prop, verdict, report.evaluations, distinct, len(seen_known), time.time() - report.t0))
    return rc
