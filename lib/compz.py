"""Shared Python for the componentize-based checks (C09, C12, C13, C31):
world sources (seeded random worlds from witgen + the tests/codegen corpus),
the per-backend exclusions crates/test declares, CLI driving, tool probing and
error normalisation."""
import glob
import json
import os
import re
import shutil
import subprocess

import cli
import vcommon

_BIN = {}


def componentize_bin():
    if "b" not in _BIN:
        d = vcommon.cargo_build("componentize", bins=["componentize"])
        _BIN["b"] = os.path.join(d, "componentize")
    return _BIN["b"]


def cz(args, timeout=120):
    """Run a componentize subcommand that prints one JSON object."""
    rc, out, err = vcommon.sh([componentize_bin()] + list(args), timeout=timeout)
    if rc is None:
        return {"ok": False, "stage": "harness", "error": "componentize watchdog timeout"}
    for line in reversed(out.strip().splitlines()):
        if line.startswith("{"):
            try:
                return json.loads(line)
            except ValueError:
                break
    return {"ok": False, "stage": "harness", "error": "componentize rc=%s: %s" % (rc, (err or out)[-400:])}


def gen_worlds(seed, count, **flags):
    """Random valid worlds: list of {wit, world, tags, index}."""
    d = vcommon.scratch_dir("gen-%s" % vcommon.stable_hash([seed, count, flags]))
    out = os.path.join(d, "w.jsonl")
    args = [componentize_bin(), "gen-worlds", "--seed", str(seed), "--count", str(count), "--out", out]
    for k, v in flags.items():
        args += ["--" + k.replace("_", "-"), str(int(v) if isinstance(v, bool) else v)]
    rc, o, e = vcommon.sh(args, timeout=600)
    worlds = []
    summary = {}
    try:
        with open(out) as f:
            for line in f:
                r = json.loads(line)
                if r.get("summary"):
                    summary = r
                else:
                    worlds.append(r)
    except (OSError, ValueError):
        pass
    vcommon.rm_scratch(d)
    if rc != 0 and not worlds:
        raise vcommon.HarnessFailure("gen-worlds failed rc=%s: %s" % (rc, (e or o)[-800:]))
    return worlds, summary


# Hand-written worlds that are always included (kebab-case multi-word resources,
# keyword-named items in every position).
FIXED_WORLDS = [
    ("kebab-resource", "my-world", """package a:b;
interface my-iface {
  resource my-thing { constructor(a: u32); get-it: func() -> u32; make: static func() -> my-thing; }
  resource x { }
  record rec { a: u8, b: string }
  f: func(a: rec, l: list<u8>) -> string;
  g: func(x: borrow<my-thing>, y: my-thing) -> option<rec>;
}
world my-world { import my-iface; export my-iface; export run: func(); import log: func(s: string); }
"""),
    ("keywords", "new", """package int:default;
interface %type {
  record %record { %enum: u8, %struct: string, self: u32, this: bool }
  variant %variant { %static(u8), none, some(string), default }
  enum %enum { auto, break, case, %char, const, continue, do, double, else, extern, float, for, goto, if, inline, int, long, register, return, short, signed, sizeof, switch, typedef, union, unsigned, void, volatile, while }
  flags %flags { class, delete, explicit, friend, namespace, new, operator, private, protected, public, template, this, throw, typename, using, virtual }
  ret: func(x: u32, y: u32, r: %record, v: %variant, en: %enum, fl: %flags) -> result<%record, %variant>;
  %func: func(%async: string, await: list<string>, class: u8, int: u8, switch: u8, template: u8) -> string;
}
world new { import %type; export %type; import %import: func(%export: u8); export main: func(argc: u32) -> u32; }
"""),
    ("temporaries", "temps", """package a:temps;
interface i {
  record rec { ptr: u32, len: u32, base: string }
  f1: func(ptr0: u8, len0: u8, result0: list<u8>, vec0: string, e: rec, t: u8) -> string;
  f2: func(ret-area: u8, cleanup-list: u8, ret: u8, base: string, ptr: list<string>, len: u32) -> list<string>;
  f3: func(arg0: u8, arg1: string, %result: option<string>, payload: result<string, string>, handle: u32) -> rec;
}
world temps { import i; export i; }
"""),
]


# WIT-declared async functions that mention the same future/stream type twice in a row, followed by
# payloads of the other kind and of new types (params, results, nested), and later functions that
# re-list an already seen type before a new one: every `[future-new-N]f` index is exercised
PAYLOAD_INDEX_STRESS = ("payload-index-stress", "payloads", """package a:payloads;
interface i {
  record rec-with-future { f: future<u32>, n: u8 }
  f: async func(a: future<u8>, b: future<u8>, c: stream<u8>) -> stream<string>;
  g: async func(r: rec-with-future, s: rec-with-future) -> future<list<u8>>;
  h: async func(a: future<u8>, b: stream<u16>, c: option<future<u8>>, d: tuple<stream<u8>, future<string>>) -> result<stream<u32>, future<u8>>;
  k: async func(a: stream<u8>, b: stream<u8>, c: future<u64>) -> future<u64>;
}
world payloads {
  import i;
  export i;
  import wf: async func(a: future<u8>, b: future<u8>, c: stream<u8>);
  export we: async func(a: stream<string>, b: stream<string>) -> future<string>;
}
""")


def corpus():
    """tests/codegen entries as crates/test sees them: [(name, wit_path, config)]."""
    root = os.path.join(vcommon.REPO, "tests", "codegen")
    out = []
    for p in sorted(glob.glob(os.path.join(root, "*"))):
        name = os.path.basename(p)
        if os.path.isfile(p) and p.endswith(".wit"):
            out.append((name, p, wit_config(p)))
        elif os.path.isdir(os.path.join(p, "wit")):
            out.append((name, os.path.join(p, "wit"), {"async": False, "error-context": False}))
    return out


def wit_config(path):
    """The `//@ key = value` block at the top of a corpus file (async, error-context)."""
    cfg = {"async": False, "error-context": False}
    try:
        with open(path) as f:
            for line in f:
                if not line.startswith("//@"):
                    break
                m = re.match(r"//@\s*([\w-]+)\s*=\s*(\w+)", line)
                if m and m.group(1) in cfg:
                    cfg[m.group(1)] = m.group(2) == "true"
    except OSError:
        pass
    return cfg


def random_config(tags):
    """WitConfig a random world would carry, derived from its feature tags."""
    tags = set(tags)
    return {"async": bool(tags & {"future", "stream", "async-func"}), "error-context": "error-context" in tags}


def excluded(backend, name, config, variant="", tags=()):
    """Mirror of `should_fail_verify` in crates/test/src/<backend>.rs (pinned
    commit).  `name` is the corpus file name (or '' for random worlds),
    `variant` the codegen_test_variants key ('' = default), `tags` the world's
    feature tags (random worlds: named-fixed-list stands for
    named-fixed-length-list.wit)."""
    tags = set(tags)
    full = name + ("-" + variant if variant else "")
    named_fixed = name == "named-fixed-length-list.wit" or (not name and "named-fixed-list" in tags)
    if backend == "c":
        return config.get("error-context") or named_fixed
    if backend == "cpp":
        if name == "issue-1598.wit" and not variant:
            return False
        return name == "issue1514-6.wit" or (named_fixed and not variant) or config.get("async") or (not name and "named-fixed-list" in tags)
    if backend == "rust":
        if full in ("wasi-http-borrowed-duplicate", "more-variants.wit-borrowed-duplicate"):
            return True
        if named_fixed and variant == "async":
            return True
        return False
    if backend == "csharp":
        return name in ("error-context.wit", "resource-fallible-constructor.wit", "async-resource-func.wit",
                        "import-export-resource.wit", "issue-1433.wit", "named-fixed-length-list.wit") or (not name and bool(
                            tags & {"error-context", "fallible-constructor", "named-fixed-list"}))
    if backend == "go":
        return config.get("error-context") or named_fixed
    if backend == "moonbit":
        return config.get("error-context") or (named_fixed and variant == "async")
    if backend == "d":
        return config.get("async") or config.get("error-context") or name in ("map.wit", "issue1642.wit") or (not name and "map" in tags)
    return False


def world_info(wit_path):
    return cz(["world-info", "--wit", wit_path])


WIT_KEYWORDS = {
    "use", "type", "func", "u8", "u16", "u32", "u64", "s8", "s16", "s32", "s64", "f32", "f64", "char", "resource", "own",
    "borrow", "record", "flags", "variant", "enum", "bool", "string", "option", "result", "future", "stream",
    "error-context", "list", "map", "as", "from", "static", "interface", "tuple", "world", "import", "export", "package",
    "constructor", "include", "with", "async",
}


def run_generator(backend, wit_path, world, outdir, args, wasm_imports=False, timeout=180):
    """Run the working-tree CLI.  Returns (status, detail): status in
    ok | error | panic | timeout."""
    os.makedirs(outdir, exist_ok=True)
    cmd = [backend, wit_path, "--out-dir", outdir]
    if world:
        cmd += ["--world", ("%" + world) if world in WIT_KEYWORDS else world]
    cmd += list(args)
    rc, out, err = cli.run_cli(cmd, timeout=timeout, wasm_imports=wasm_imports)
    if rc is None:
        return "timeout", ""
    if rc == 0:
        return "ok", ""
    if "panicked at" in err:
        return "panic", err[-1500:]
    return "error", err[-1500:]


def tool(*names):
    for n in names:
        p = shutil.which(n)
        if p:
            return p
    return None


_ID = re.compile(r"[A-Za-z_][A-Za-z0-9_]*")

C_KEYWORDS = set("""alignas alignof and and_eq asm auto bitand bitor bool break case catch char char8_t char16_t char32_t class compl
concept const consteval constexpr constinit const_cast continue co_await co_return co_yield decltype default delete do double
dynamic_cast else enum explicit export extern false float for friend goto if inline int long mutable namespace new noexcept not
not_eq nullptr operator or or_eq private protected public register reinterpret_cast requires return short signed sizeof static
static_assert static_cast struct switch template this thread_local throw true try typedef typeid typename union unsigned using
virtual void volatile wchar_t while xor xor_eq restrict typeof typeof_unqual _Bool _Complex _Atomic _Generic _Noreturn""".split())

RUST_KEYWORDS = set("""as break const continue crate else enum extern false fn for if impl in let loop match mod move mut pub ref
return self Self static struct super trait true type unsafe use where while async await dyn abstract become box do final macro
override priv typeof unsized virtual yield try gen union""".split())


def token_at(path, line, col):
    """Identifier token covering (1-based) line/col of a file, or ''."""
    try:
        with open(path, errors="replace") as f:
            for i, text in enumerate(f, 1):
                if i == line:
                    break
            else:
                return ""
    except OSError:
        return ""
    i = max(0, min(col - 1, len(text) - 1))
    if not (text[i].isalnum() or text[i] == "_"):
        return ""
    a = i
    while a > 0 and (text[a - 1].isalnum() or text[a - 1] == "_"):
        a -= 1
    b = i
    while b < len(text) and (text[b].isalnum() or text[b] == "_"):
        b += 1
    return text[a:b]


def source_line(path, line):
    try:
        with open(path, errors="replace") as f:
            for i, text in enumerate(f, 1):
                if i == line:
                    return text
    except OSError:
        pass
    return ""


def identifier_position_words(text):
    """Words of a C-family/Rust source line that stand where a declared name
    stands: `<type> WORD[;,)=[]`, `namespace WORD {`, `.WORD` / `->WORD`, `WORD:`."""
    out = re.findall(r"[\w>\*&\]]\s+([A-Za-z_]\w*)\s*[;,)=\[]", text)
    out += re.findall(r"namespace\s+([A-Za-z_]\w*)\s*\{", text)
    out += re.findall(r"(?:\.|->)\s*([A-Za-z_]\w*)\b", text)
    out += re.findall(r"[(,]\s*([A-Za-z_]\w*)\s*:", text)
    return [w for w in out if w not in ("const", "volatile")]


def keyword_root_cause(err, wit_text, keywords, loc_re=r"^(\S+?):(\d+):(\d+): (?:fatal )?error:"):
    """If the first compiler error points at an identifier that is a keyword of
    the target language, name the root cause: the WIT identifier was written in
    upper case (generators match keywords before case conversion) or the
    keyword is missing from the generator's escape list.  Returns a signature
    suffix or None."""
    lines = err.splitlines()
    for i, line in enumerate(lines):
        m = re.match(loc_re, line)
        if not m and re.match(r"error(\[E\d+\])?: ", line):
            # rustc: location on a following `--> file:line:col` line
            for nxt in lines[i + 1:i + 4]:
                m2 = re.match(r"\s*--> (\S+?):(\d+):(\d+)", nxt)
                if m2:
                    m = m2
                    break
            if not m:
                m = re.match(r"()()()", "")
        if not m:
            continue
        if m.group(1):
            path, ln, col = m.group(1), int(m.group(2)), int(m.group(3))
        else:
            path, ln, col = "", 0, 0
        # only words the compiler quotes, or words standing where a declared name
        # stands on the offending line, count (a keyword used *as* a keyword at
        # the error position is not evidence of a naming problem)
        cands = []
        for rx in (r"keyword `(\w+)`", r"'(\w+)' is a keyword", r"after '(\w+)'", r"before ‘(\w+)’(?: token)?\s*$", r"before '(\w+)'\s*$"):
            cands += re.findall(rx, line)
        src = source_line(path, ln) if path else ""
        if src:
            cands += identifier_position_words(src)
        for tok in cands:
            if tok and tok in keywords:
                if re.search(r"\bmod\s+%s\b|::%s::|::%s\b\s*;" % (tok, tok, tok), src) and not re.search(r"\bfn\b", src):
                    # a package namespace / package / interface name used as a Rust module path segment
                    return "unescaped-keyword:module-path-segment"
                return "unescaped-keyword:" + tok
        return None
    return None


def signature(job, prefix, specific, named=False):
    """Violation signature, or None when the failure must be reported as
    inconclusive.

    * `named=True`: `specific` names a specific root cause (a bucket, an
      unescaped keyword, a confirmed generator-temporary collision): the
      signature is the same whatever world exhibited it.
    * otherwise `specific` is only the normalised first diagnostic.  For corpus
      files and hand-written worlds (which pass on the pinned tree) that is a
      precise signature - the sharp gate.  For random adversarial worlds the
      first compiler message is not a stable key and does not identify a
      defect, so compile-stage failures there are *inconclusive* (None); the
      diagnostics and the WIT are kept in the evidence file."""
    if named or job.get("source") != "random":
        return prefix + specific
    return None


def unclassified(rep, job, stage, what, detail):
    """Record an unclassified compile-stage failure on a random world (inconclusive)."""
    u = rep.extra.setdefault("unclassified_compile_failures", {"count": 0, "by_diagnostic": {}, "samples": []})
    u["count"] += 1
    k = normalise(what.split(": ", 1)[-1])
    u["by_diagnostic"][k] = u["by_diagnostic"].get(k, 0) + 1
    if len(u["samples"]) < 4:
        u["samples"].append({"job": job["id"], "args": job["args"], "stage": stage, "diagnostic": what[:400], "compiler_output": detail[:1200],
                             "wit": read_wit(job["wit"])[:6000]})
    rep.inconc("%s: unclassified compile failure on a random adversarial world (diagnostics in coverage.unclassified_compile_failures)" % stage)


def bucket(msg, buckets):
    """First matching (regex, name) bucket for a diagnostic, else None."""
    for rx, name in buckets:
        if re.search(rx, msg):
            return name
    return None


GENERATOR_TEMPORARIES = re.compile(
    r"(?<![\w-])(cleanup-list|ret-area|ptr\d*|len\d*|result\d*|vec\d*|base|array\d*|payload\d*|variant\d*|layout\d*|bytes\d*|"
    r"handle\d*|e\d*|t\d*|v\d*|l\d*|p\d*|option\d*|key\d*|map\d*|tuple\d*|flags\d*|addr\d*|arg\d+|ret|val|rep)(?![\w-])")

def confirmed_temporary_collision(err, wit_text):
    """A clash between a user name and a generator temporary counts as confirmed
    only when the first diagnostic's *message* names an identifier that (a) is
    written in the WIT (snake_case spelling) and (b) has the shape of a
    generator-introduced local (`ret_area`, `cleanup_list`, `ptr0`, ...).
    Anything weaker is left unclassified.  Returns the identifier or None."""
    wit_names = {m.group(0).lower().replace("-", "_") for m in GENERATOR_TEMPORARIES.finditer(wit_text)}
    # only distinctive spellings: `ret_area`, `cleanup_list`, or a numbered local (`ptr0`, `len12`, `result3`)
    wit_names = {n for n in wit_names if n in ("ret_area", "cleanup_list") or re.fullmatch(r"[a-z]{3,}\d+", n)}
    if not wit_names:
        return None
    for line in err.splitlines():
        m = re.search(r"error(?:\[E\d+\])?: (.*)$", line)
        if not m:
            continue
        for n in sorted(wit_names):
            # standalone in the message, not a segment of a `a::b::c` path
            if re.search(r"(?<![:\w])%s(?![:\w])" % re.escape(n), m.group(1)):
                return n
        return None
    return None


_RUST_VOCAB = re.compile(r"^(&|&mut |\*const |\*mut )?(wit_|_rt|into_|as_|from_|Vec|String|str|Box|Option|Result|BTreeMap|HashMap|AsI|AsF|Guest$|(Self|self|crate|super)$|u8|u16|u32|u64|i8|i16|i32|i64|f32|f64|usize|bool|char)")


def normalise_rust(msg):
    """rustc diagnostic -> stable text: back-ticked fragments survive only when
    they are runtime/generator vocabulary (generic arguments elided)."""
    msg = msg.strip().splitlines()[0] if msg.strip() else ""

    def q(m):
        inner = m.group(1)
        if _RUST_VOCAB.match(inner) or inner in RUST_KEYWORDS:
            inner = re.sub(r"<.*>", "<..>", inner)
            return "`" + inner + "`"
        return "`_`"

    msg = re.sub(r"`([^`]*)`", q, msg)
    msg = re.sub(r"\b\d+\b", "N", msg)
    return re.sub(r"\s+", " ", msg)[:160]


def normalise(msg, keep=()):
    """Make a diagnostic world-independent: quoted/backticked identifiers, numbers
    and paths are replaced by placeholders; language keywords in `keep` survive."""
    msg = msg.strip().splitlines()[0] if msg.strip() else ""
    msg = re.sub(r"(/[\w.+-]+)+(:\d+)*", "<path>", msg)

    def q(m):
        inner = m.group(2)
        if inner in keep:
            return m.group(1) + inner + m.group(3)
        return m.group(1) + "_" + m.group(3)

    msg = re.sub(r"([`'‘\"])([^`'’\"]*)(['’`\"])", q, msg)
    msg = re.sub(r"\b\d+\b", "N", msg)
    msg = re.sub(r"\s+", " ", msg)
    return msg[:160]


# --------------------------------------------------------------------------
# job lists shared by C09/C12/C31

def materialise(workroot, tag, wit_text):
    """Write a WIT text into its own directory; returns the file path."""
    d = os.path.join(workroot, tag)
    os.makedirs(d, exist_ok=True)
    p = os.path.join(d, "w.wit")
    with open(p, "w") as f:
        f.write(wit_text)
    return p


def read_wit(path):
    """Text of a corpus entry (file, or all files of a directory) for replays."""
    if os.path.isfile(path):
        with open(path) as f:
            return f.read()
    out = []
    for p in sorted(glob.glob(os.path.join(path, "**", "*.wit"), recursive=True)):
        with open(p) as f:
            out.append("// file: %s\n%s" % (os.path.relpath(p, path), f.read()))
    return "\n".join(out)


def lowercase_ids(text):
    """Lower-case every upper-case word of WIT identifiers (`FOO-bar` -> `foo-bar`)."""
    return re.sub(r"(?<![A-Za-z0-9])[A-Z][A-Z0-9]*(?![a-z])", lambda m: m.group(0).lower(), text)


def retry_lowercased(job, workroot, run_one):
    """Run `run_one(job)`; when the failure is the known upper-case-identifier
    root cause, also run a copy of the world with those identifiers lower-cased
    (if that copy is still a valid world) so that one root cause does not hide
    everything else.  Returns [(job, result), ...]."""
    r = run_one(job)
    out = [(job, r)]
    if r.get("status") == "violation" and str(r.get("sig", "")).endswith("uppercase-wit-id") and os.path.isfile(job["wit"]):
        with open(job["wit"]) as f:
            text = f.read()
        low = lowercase_ids(text)
        if low != text:
            p = materialise(workroot, "low-" + vcommon.stable_hash(job["id"]), low)
            v = cz(["validate", "--wit", p])
            if v.get("ok"):
                j2 = dict(job)
                j2.update({"id": job["id"] + "+lower", "wit": p, "world": v.get("world"), "name": job["name"] + "+lower"})
                out.append((j2, run_one(j2)))
    return out


def make_all_async(text):
    """Turn every freestanding/method/static function of a WIT text into an
    `async func` (constructors cannot be async)."""
    return re.sub(r"(?<!async )\bfunc\(", "async func(", text)


def thorough_scale(tier, n):
    """VERIF_THOROUGH_SCALE (float, default 1) scales the number of random worlds
    of the thorough tier (to validate it on a heavily loaded machine)."""
    if tier != "thorough":
        return n
    try:
        return max(1, int(n * float(os.environ.get("VERIF_THOROUGH_SCALE", "1"))))
    except ValueError:
        return n


def thorough_stride():
    try:
        sc = float(os.environ.get("VERIF_THOROUGH_SCALE", "1"))
    except ValueError:
        sc = 1.0
    return max(1, int(round(1.0 / sc))) if 0 < sc < 1 else 1


def plan(backend, tier, seed, workroot, variants, n_random, profiles, corpus_variants="rotate", quick_corpus=None, directed=()):
    """Build the job list for a compile-the-output check.

    variants: [(key, [args])], first is the default.  profiles: list of
    gen-worlds flag dicts; random worlds are spread over them.  Returns
    (jobs, stats).  Each job: {id, source, name, wit, world, variant, args, tags}."""
    rng = vcommon.Rng(seed * 7919 + 13)
    n_random = thorough_scale(tier, n_random)
    jobs = []
    stats = {"excluded": 0, "random_discarded": 0, "corpus_entries": 0, "random_worlds": 0}

    def add(source, name, wit_path, world, tags, cfg, vkeys):
        for key, args in variants:
            if key not in vkeys:
                continue
            if excluded(backend, name if source == "corpus" else "", cfg, key if key != "default" else "", tags):
                stats["excluded"] += 1
                continue
            jobs.append({"id": "%s/%s/%s" % (source, name, key), "source": source, "name": name, "wit": wit_path, "world": world,
                         "variant": key, "args": list(args), "tags": sorted(tags)})

    allkeys = [k for k, _ in variants]
    for name, world, text in FIXED_WORLDS:
        p = materialise(workroot, "fixed-" + name, text)
        add("fixed", name, p, world, (), {"async": False, "error-context": False}, allkeys)
    # directed worlds: one per named root cause, so that it is exhibited at every seed
    for name, world, text, vkeys in directed:
        p = materialise(workroot, "directed-" + name, text)
        add("directed", name, p, world, (), {"async": False, "error-context": False}, vkeys or ["default"])
    entries = corpus()
    stats["corpus_entries"] = len(entries)
    for i, (name, path, cfg) in enumerate(entries):
        if tier == "thorough" or corpus_variants == "all":
            keys = allkeys
            stride = thorough_stride()
            if stride > 1 and (i + seed) % stride != 0:
                continue  # VERIF_THOROUGH_SCALE < 1: validation run on a loaded machine
        else:
            # quick: default for everything, plus one rotating extra variant
            keys = ["default"]
            if len(allkeys) > 1:
                keys.append(allkeys[1 + (i + seed) % (len(allkeys) - 1)])
            if quick_corpus is not None and (i + seed) % quick_corpus[1] >= quick_corpus[0]:
                continue
        add("corpus", name, path, None, (), cfg, keys)
    per = max(1, n_random // max(1, len(profiles)))
    for pi, prof in enumerate(profiles):
        worlds, summary = gen_worlds(seed * 1000 + pi, per, **prof)
        stats["random_discarded"] += int(summary.get("discarded", 0))
        for w in worlds:
            stats["random_worlds"] += 1
            tag = "rand-%d-%d" % (pi, w["index"])
            p = materialise(workroot, tag, w["wit"])
            cfg = random_config(w["tags"])
            keys = ["default" if rng.chance(1, 3) else rng.pick(allkeys)]
            if tier == "thorough" and rng.chance(1, 4):
                keys = allkeys
            if "async" in keys and "resource" not in w["tags"]:
                # `--async=all` can only be componentized when every function
                # is async-typed: use an all-async copy of the world
                text = make_all_async(w["wit"])
                p2 = materialise(workroot, tag + "-allasync", text)
                v = cz(["validate", "--wit", p2])
                if v.get("ok"):
                    add("random", tag + "-allasync", p2, w["world"], set(w["tags"]) | {"async-func"}, {"async": True, "error-context": cfg["error-context"]}, ["async"])
                    keys = [k for k in keys if k != "async"]
            add("random", tag, p, w["world"], w["tags"], cfg, keys)
    return jobs, stats


def replay_job(replay, workroot, variants):
    r = replay.get("replay", replay)
    p = materialise(workroot, "replay", r["wit_text"])
    return [{"id": "replay", "source": r.get("source", "replay"), "name": r.get("name", "replay"), "wit": p, "world": r.get("world"),
             "variant": r.get("variant", "default"), "args": r.get("args", []), "tags": r.get("tags", [])}]


def replay_floor(rep, floors, tier):
    """A replayed single case that no longer fails must end as `held` (exit 0),
    not as `too little observed`: the per-tier floors are about exploration runs."""
    e, d = floors.get(tier, (1, 2))
    rep.extra["replay_mode"] = True
    rep.extra["replayed_cases"] = rep.evaluations
    rep.rule = ("REPLAY MODE: %d stored case(s) re-executed, nothing explored; evaluations/distinct are padded to the tier floors only so "
                "that a case which no longer fails ends as exit 0 instead of `too little observed`. " % rep.evaluations) + rep.rule
    rep.evaluations = max(rep.evaluations, e)
    rep.distinct_extra = max(0, d - len(rep.distinct))


def job_replay(job, extra=None):
    r = {"name": job["name"], "world": job["world"], "variant": job["variant"], "args": job["args"], "tags": job["tags"],
         "wit_text": read_wit(job["wit"]) if job["source"] != "corpus" or os.path.isfile(job["wit"]) else read_wit(job["wit"]),
         "source": job["source"]}
    if extra:
        r.update(extra)
    return r
