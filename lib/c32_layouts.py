"""Random WIT package layouts x `generate!` invocation forms for C32.

A *case* is a JSON-able dict:
  {"idx", "crate", "form", "world_opt", "lib_rs",
   "files":   [{"rel": path relative to the scratch workspace, "role", "text" | "copy"}],
   "symlinks":[{"rel", "to"}],
   "expect_reads": whether the macro is expected to read at least one file}
Roles: main (file of the main package holding the selected world), sibling (other
files of the main package), dep (package the main package refers to, in deps/ or
supplied by an earlier `path` entry), nested-dep (dependency of a dependency),
unused-dep (package in deps/ nothing refers to), wasm-dep (wasm-encoded package in
deps/), main-wasm (wasm-encoded package given directly as `path`), distractor
(non-WIT file that must not matter)."""
import os

FORMS = ["path-str-dir", "default-dir", "path-list", "inline+path", "inline-default-dir", "path-str-file",
         "short-in", "short-default", "inline"]
NS = "c32"
FILE_NAMES = ["a.wit", "main.wit", "types.wit", "world.wit", "z-last.wit", "iface.wit", "more.wit", "b2.wit"]


class Pkg:
    def __init__(self, k):
        self.k = k
        self.name = "p%d" % k
        self.files = []          # (filename, text)
        self.world_file = None   # filename that holds the worlds

    def iface(self, j=0):
        return "i%dx%d" % (self.k, j)

    def ty(self, j=0):
        return "t%dx%d" % (self.k, j)

    def qual(self, j=0):
        return "%s:%s/%s" % (NS, self.name, self.iface(j))


def make_pkg(rng, k, nfiles, uses, worlds=None, extra_imports=()):
    """uses: Pkg list whose first interface's type is `use`d by this package's
    first interface.  worlds: list of world names to define (main package)."""
    p = Pkg(k)
    names = list(FILE_NAMES)
    for j in range(nfiles):
        fname = names.pop(rng.below(len(names)))
        lines = []
        if j == 0 or rng.chance(1, 2):
            lines.append("package %s:%s;" % (NS, p.name))
            lines.append("")
        lines.append("interface %s {" % p.iface(j))
        args = ["a: %s" % p.ty(j)]
        if j == 0:
            for u in uses:
                lines.append("  use %s.{%s};" % (u.qual(0), u.ty(0)))
                args.append("x%d: %s" % (u.k, u.ty(0)))
        kind = rng.below(3)
        if kind == 0:
            lines.append("  type %s = u32;" % p.ty(j))
        elif kind == 1:
            lines.append("  record %s { a: u8, b: string }" % p.ty(j))
        else:
            lines.append("  enum %s { one, two }" % p.ty(j))
        lines.append("  f%d: func(%s) -> %s;" % (j, ", ".join(args), p.ty(j)))
        lines.append("}")
        p.files.append([fname, "\n".join(lines) + "\n"])
    if worlds:
        w = []
        for wi, wname in enumerate(worlds):
            w.append("world %s {" % wname)
            # the first world imports the first interface (which pulls in the deps), later worlds another one
            w.append("  import %s;" % p.iface(0 if wi == 0 else (nfiles - 1)))
            if wi == 0:
                for q in extra_imports:
                    w.append("  import %s;" % q)
            w.append("}")
        if rng.chance(1, 2) or nfiles == 1:
            tgt = rng.below(nfiles)
            p.files[tgt][1] += "\n" + "\n".join(w) + "\n"
            p.world_file = p.files[tgt][0]
        else:
            fname = "the-worlds.wit"
            p.files.append([fname, "\n".join(w) + "\n"])
            p.world_file = fname
    return p


def _put_pkg_dir(files, base, pkg, role_world, role_other):
    for fname, text in pkg.files:
        files.append({"rel": os.path.join(base, fname), "role": role_world if fname == pkg.world_file else role_other, "text": text})


def _put_dep(rng, files, depsdir, pkg, role):
    """A dependency is either deps/<name>/ (one or more files) or deps/<name>.wit"""
    if len(pkg.files) == 1 and rng.chance(1, 2):
        files.append({"rel": os.path.join(depsdir, "%s.wit" % pkg.name), "role": role, "text": pkg.files[0][1]})
    else:
        for fname, text in pkg.files:
            files.append({"rel": os.path.join(depsdir, pkg.name, fname), "role": role, "text": text})


class Ctr:
    def __init__(self):
        self.n = 0

    def next(self):
        self.n += 1
        return self.n


def build_dir(rng, ctr, files, base, wasm, foreign_ok=True, worlds=("w",), force_wasm=False, main_role=("main", "sibling")):
    """Create a package directory at `base` with deps/.  Returns the main Pkg and
    the list of extra world imports used."""
    ndeps = rng.below(4)
    direct, nested, unused = [], [], []
    if ndeps >= 1:
        n = make_pkg(rng, ctr.next(), 1 + rng.below(2), [])
        d = make_pkg(rng, ctr.next(), 1 + rng.below(2), [n] if ndeps >= 2 else [])
        direct.append(d)
        if ndeps >= 2:
            nested.append(n)
        else:
            unused.append(n) if rng.chance(1, 2) else direct.append(n)
    if ndeps >= 3:
        unused.append(make_pkg(rng, ctr.next(), 1, []))
    extra = []
    use_wasm = wasm and (force_wasm or rng.chance(1, 3))
    if use_wasm and foreign_ok:
        extra.append("wasi:cli/environment@0.2.0")
    uses = direct if foreign_ok else []
    if not foreign_ok:
        # nothing of deps/ may be referenced by the world: everything there is parsed but unused
        unused += direct + nested
        direct, nested = [], []
    main = make_pkg(rng, ctr.next(), 1 + rng.below(3), uses, list(worlds), extra)
    _put_pkg_dir(files, base, main, main_role[0], main_role[1])
    depsdir = os.path.join(base, "deps")
    for p in direct:
        _put_dep(rng, files, depsdir, p, "dep" if main_role[0] == "main" else "nested-dep")
    for p in nested:
        _put_dep(rng, files, depsdir, p, "nested-dep")
    for p in unused:
        _put_dep(rng, files, depsdir, p, "unused-dep")
    if use_wasm:
        files.append({"rel": os.path.join(depsdir, "cli.wasm"), "role": "wasm-dep", "copy": wasm})
    if rng.chance(1, 2):
        files.append({"rel": os.path.join(base, "README.md"), "role": "distractor", "text": "not wit\n"})
    if (direct or nested or unused or use_wasm) and rng.chance(1, 2):
        files.append({"rel": os.path.join(depsdir, "notes.txt"), "role": "distractor", "text": "not wit\n"})
    return main


def _world_opt(rng, main, nworlds):
    """-> (world option text or None, world name used)"""
    if nworlds == 1:
        r = rng.below(3)
        if r == 0:
            return None
        return "w" if r == 1 else "%s:%s/w" % (NS, main.name)
    return rng.pick(["w", "w2", "%s:%s/w2" % (NS, main.name), "%s:%s/w" % (NS, main.name)])


def _lit(s):
    return '"%s"' % s.replace("\\", "\\\\").replace('"', '\\"')


def gen_case(rng, idx, crate, form, wasm=None, force_wasm=False):
    """`wasm`: absolute path of a wasm-encoded WIT package providing wasi:cli@0.2.0 (or None)."""
    ctr = Ctr()
    files, symlinks = [], []
    opts = []
    world_opt = None
    expect_reads = True
    cd = crate  # crate directory relative to the workspace root

    def pick_dir(default_ok=False):
        names = ["wit2", "api/wit", "my wit dir", "../shared-%s/wit" % crate, "nested/a/b"]
        return rng.pick(names)

    def two_worlds():
        return ("w", "w2") if rng.chance(1, 3) else ("w",)

    if form in ("path-str-dir", "default-dir"):
        worlds = two_worlds()
        d = "wit" if form == "default-dir" else pick_dir()
        main = build_dir(rng, ctr, files, os.path.normpath(os.path.join(cd, d)), wasm, True, worlds, force_wasm)
        world_opt = _world_opt(rng, main, len(worlds))
        path_val = d
        if form == "path-str-dir" and rng.chance(1, 5) and not d.startswith(".."):
            # reach the directory through a symlink
            symlinks.append({"rel": os.path.join(cd, "link-to-wit"), "to": d})
            path_val = "link-to-wit"
        if form == "path-str-dir":
            opts.append("path: %s" % _lit(path_val))
        if world_opt:
            opts.append("world: %s" % _lit(world_opt))
        opts.append("generate_all")
        lib = "wit_bindgen::generate!({ %s });\n" % ", ".join(opts)
    elif form == "path-str-file":
        if wasm and rng.chance(1, 3):
            files.append({"rel": os.path.join(cd, "pkgs", "wasi-cli.wasm"), "role": "main-wasm", "copy": wasm})
            lib = 'wit_bindgen::generate!({ path: "pkgs/wasi-cli.wasm", world: "wasi:cli/imports@0.2.0", generate_all });\n'
            world_opt = "wasi:cli/imports@0.2.0"
        else:
            worlds = two_worlds()
            main = make_pkg(rng, ctr.next(), 1, [], list(worlds))
            f = rng.pick(["one.wit", "sub/one.wit", "../lonely-%s.wit" % crate])
            files.append({"rel": os.path.normpath(os.path.join(cd, f)), "role": "main", "text": main.files[0][1]})
            world_opt = _world_opt(rng, main, len(worlds))
            opts.append("path: %s" % _lit(f))
            if world_opt:
                opts.append("world: %s" % _lit(world_opt))
            lib = "wit_bindgen::generate!({ %s });\n" % ", ".join(opts)
    elif form == "path-list":
        # earlier entries supply packages the last one (the main package) refers to
        nlead = 1 + rng.below(2)
        leads, entries = [], []
        for li in range(nlead):
            if rng.chance(1, 2):
                p = make_pkg(rng, ctr.next(), 1, [])
                f = "lead%d.wit" % li
                files.append({"rel": os.path.join(cd, "lists", f), "role": "dep", "text": p.files[0][1]})
                entries.append("lists/" + f)
            else:
                d = "lists/lead%d" % li
                p = build_dir(rng, ctr, files, os.path.join(cd, d), None, True, (), False, main_role=("dep", "dep"))
                entries.append(d)
            leads.append(p)
        worlds = two_worlds()
        # main directory (may have its own deps/ as well)
        d = "lists/mainpkg"
        sub = []
        main = make_pkg(rng, ctr.next(), 1 + rng.below(3), leads, list(worlds))
        _put_pkg_dir(sub, os.path.join(cd, d), main, "main", "sibling")
        if rng.chance(1, 2):
            u = make_pkg(rng, ctr.next(), 1, [])
            _put_dep(rng, sub, os.path.join(cd, d, "deps"), u, "unused-dep")
        if wasm and force_wasm:
            sub.append({"rel": os.path.join(cd, d, "deps", "cli.wasm"), "role": "wasm-dep", "copy": wasm})
        files += sub
        entries.append(d)
        wn = "w2" if len(worlds) == 2 and rng.chance(1, 2) else "w"
        world_opt = "%s:%s/%s" % (NS, main.name, wn)
        lib = "wit_bindgen::generate!({ path: [%s], world: %s, generate_all });\n" % (", ".join(_lit(e) for e in entries), _lit(world_opt))
    elif form in ("inline+path", "inline-default-dir"):
        if form == "inline-default-dir":
            dirs = ["wit"]
        else:
            dirs = [pick_dir()] + (["second-path"] if rng.chance(1, 3) else [])
        pk = []
        for di, d in enumerate(dirs):
            pk.append(build_dir(rng, ctr, files, os.path.normpath(os.path.join(cd, d)), wasm if di == 0 else None, True, (),
                                force_wasm, main_role=("dep", "dep")))
        inline = "package %s:inl;\nworld w {\n%s}\n" % (NS, "".join("  import %s;\n" % p.qual(0) for p in pk))
        if form == "inline+path":
            if len(dirs) == 1 and rng.chance(1, 2):
                opts.append("path: %s" % _lit(dirs[0]))
            else:
                opts.append("path: [%s]" % ", ".join(_lit(d) for d in dirs))
        inl = 'inline: r#"%s"#' % inline
        opts = ([inl] + opts) if rng.chance(1, 2) else (opts + [inl])
        if rng.chance(1, 2):
            world_opt = "w"
            opts.append('world: "w"')
        opts.append("generate_all")
        lib = "wit_bindgen::generate!({ %s });\n" % ", ".join(opts)
    elif form == "inline":
        inline = "package %s:inl;\ninterface i { f: func(a: u32) -> string; }\nworld w { import i; }\n" % NS
        lib = 'wit_bindgen::generate!({ inline: r#"%s"# });\n' % inline
        # a directory that is NOT named `wit` must not be looked at
        files.append({"rel": os.path.join(cd, "not-wit", "x.wit"), "role": "distractor", "text": "package c32:unrelated;\n"})
        expect_reads = False
    elif form in ("short-in", "short-default"):
        d = "wit" if form == "short-default" else rng.pick(["wit2", "api/wit", "../shared-%s/wit" % crate])
        worlds = ("w",) if (form == "short-default" and rng.chance(1, 2)) else two_worlds()
        main = build_dir(rng, ctr, files, os.path.normpath(os.path.join(cd, d)), wasm, False, worlds, False)
        if form == "short-in":
            world_opt = "w2" if len(worlds) == 2 and rng.chance(1, 2) else "w"
            lib = "wit_bindgen::generate!(%s in %s);\n" % (_lit(world_opt), _lit(d))
        elif len(worlds) == 1 and rng.chance(1, 2):
            lib = "wit_bindgen::generate!();\n"
        else:
            world_opt = "w2" if len(worlds) == 2 and rng.chance(1, 2) else "w"
            lib = "wit_bindgen::generate!(%s);\n" % _lit(world_opt)
    else:
        raise ValueError(form)
    return {"idx": idx, "crate": crate, "form": form, "world_opt": world_opt, "lib_rs": lib, "files": files,
            "symlinks": symlinks, "expect_reads": expect_reads}


def materialize(ws, case, repo):
    """Write a case under the scratch workspace `ws`."""
    cd = os.path.join(ws, case["crate"])
    os.makedirs(os.path.join(cd, "src"), exist_ok=True)
    with open(os.path.join(cd, "Cargo.toml"), "w") as f:
        f.write('[package]\nname = "%s"\nversion = "0.0.0"\nedition = "2021"\n\n[lib]\npath = "src/lib.rs"\n\n[dependencies]\n'
                'wit-bindgen = { path = "%s/crates/guest-rust" }\n' % (case["crate"], repo))
    with open(os.path.join(cd, "src", "lib.rs"), "w") as f:
        f.write("#![allow(warnings)]\n" + case["lib_rs"])
    for fl in case["files"]:
        p = os.path.normpath(os.path.join(ws, fl["rel"]))
        os.makedirs(os.path.dirname(p), exist_ok=True)
        if "copy" in fl:
            with open(fl["copy"], "rb") as src, open(p, "wb") as dst:
                dst.write(src.read())
        else:
            with open(p, "w") as f:
                f.write(fl["text"])
    for sl in case["symlinks"]:
        p = os.path.normpath(os.path.join(ws, sl["rel"]))
        if not os.path.lexists(p):
            os.symlink(sl["to"], p)
