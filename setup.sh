#!/bin/sh
# Build the /verif framework from files on disk only (offline).
set -e
cd "$(dirname "$0")"
export CARGO_NET_OFFLINE=true
export CARGO_TARGET_DIR="${VERIF_TARGET_DIR:-$PWD/target}"
export RUSTFLAGS="--cfg bytecodealliance_wit_bindgen_verif -Awarnings"
(cd crates && cargo build --offline --workspace 2>&1 | tail -3)
if [ -x tools/setup-extra.sh ]; then tools/setup-extra.sh; fi
echo "setup done"
